#!/usr/bin/env python3
"""Driver for the solver-based checks: ./check.py <PROPERTY> [--tier quick|thorough]

Builds gosym, symbolically executes the property's harnesses over /repo's current working tree,
replays every counterexample natively, applies known findings, writes evidence/<id>.json, prints
KNOWN-FINDING / VIOLATION lines and exits 0 or 1."""
import sys, os, json, subprocess, time, hashlib, glob, re, tempfile, shutil, argparse, concurrent.futures

VERIF = os.path.dirname(os.path.abspath(__file__))
REPO = os.environ.get("VERIF_REPO", "/repo")
ENV = dict(os.environ, GOFLAGS="-mod=mod", GOPROXY="off", GOSUMDB="off", GOTOOLCHAIN="local")
GOSYM = os.path.join(VERIF, "bin", "gosym")


def build_gosym():
    global GOSYM
    if os.environ.get("VERIF_GOSYM"):  # development: a pre-built engine binary
        GOSYM = os.environ["VERIF_GOSYM"]
        return
    src = os.path.join(VERIF, "gosym")
    newest = max(os.path.getmtime(f) for f in glob.glob(src + "/*.go") + [src + "/go.mod"])
    if os.path.exists(GOSYM) and os.path.getmtime(GOSYM) >= newest:
        return
    os.makedirs(os.path.dirname(GOSYM), exist_ok=True)
    tmp = "%s.tmp.%d" % (GOSYM, os.getpid())
    r = subprocess.run(["go", "build", "-o", tmp, "."], cwd=src, env=ENV, capture_output=True, text=True)
    if r.returncode != 0:
        print(r.stdout + r.stderr)
        sys.exit(2)
    os.replace(tmp, GOSYM)  # atomic: checks running in parallel keep the binary they started with


def sha(path):
    try:
        return hashlib.sha256(open(path, "rb").read()).hexdigest()
    except OSError:
        return None


def g_repo(group):
    return group.get("repo", REPO)


def g_hdir(group):
    return group.get("harness_dir_abs") or os.path.join(VERIF, group["harness_dir"])


def g_extra(group):
    """helper files overlaid into other packages: [{"dir": "harness/x", "pkg": "."}]"""
    ex = group.get("extra_overlays") or []
    if not ex:
        return []
    return ["-extra-overlay", ",".join("%s=%s" % (os.path.join(VERIF, e["dir"]), e["pkg"]) for e in ex)]


def list_harnesses(group):
    r = subprocess.run([GOSYM, "-repo", g_repo(group), "-pkg", group["pkg"], "-harness-dir", g_hdir(group),
                        "-run", group["run"], "-list"] + g_extra(group), env=ENV, capture_output=True, text=True)
    if r.returncode != 0:
        return None, r.stdout + r.stderr
    return [l for l in r.stdout.split() if l.startswith("VH_")], ""


def run_shard(args):
    group, names, tier, cfgpath, out, tmo = args
    cmd = [GOSYM, "-repo", g_repo(group), "-pkg", group["pkg"], "-harness-dir", g_hdir(group),
           "-run", "|".join(names), "-tier", tier, "-cfg", cfgpath, "-kf", os.path.join(VERIF, "known_findings.json"),
           "-out", out, "-solver-timeout-ms", str(tmo)] + g_extra(group)
    t0 = time.time()
    r = subprocess.run(cmd, env=ENV, capture_output=True, text=True)
    return out, r.returncode, r.stderr, time.time() - t0


def replay(group, cexs, workdir):
    """cexs: list of (path, cex). Returns {path: outcome}."""
    hdir = g_hdir(group)
    pkgdir = os.path.normpath(os.path.join(g_repo(group), group["pkg"]))
    repl = {}
    for f in sorted(os.listdir(hdir)):
        if not f.endswith(".go"):
            continue
        if f == "zz_verif_rt.go" or f.endswith("_symonly.go"):
            continue  # symbolic-build-only files (their native counterparts are *_native.go)
        repl[os.path.join(pkgdir, f if not f.endswith("_native.go") else f.replace("_native.go", "_nat.go"))] = os.path.join(hdir, f)
    for e in group.get("extra_overlays") or []:
        d = os.path.join(VERIF, e["dir"])
        for f in sorted(os.listdir(d)):
            if f.endswith(".go"):
                repl[os.path.normpath(os.path.join(g_repo(group), e["pkg"], f))] = os.path.join(d, f)
    # registry of harnesses needed
    pkgname = None
    for f in os.listdir(hdir):
        if f.endswith(".go"):
            m = re.search(r"^package (\w+)", open(os.path.join(hdir, f)).read(), re.M)
            if m:
                pkgname = m.group(1)
                break
    names = sorted({c["harness"] for _, c in cexs})
    reg = os.path.join(workdir, "zz_verif_registry_test.go")
    with open(reg, "w") as fh:
        fh.write("package %s\n\nvar vHarnesses = map[string]func(){\n" % pkgname)
        for n in names:
            fh.write('\t"%s": %s,\n' % (n, n))
        fh.write("}\n")
    repl[os.path.join(pkgdir, "zz_verif_registry_test.go")] = reg
    ov = os.path.join(workdir, "overlay.json")
    json.dump({"Replace": repl}, open(ov, "w"))
    env = dict(ENV, VERIF_REPLAY=",".join(p for p, _ in cexs))
    r = subprocess.run(["go", "test", "-vet=off", "-count=1", "-overlay", ov, "-run", "^TestVerifReplay$", "-timeout", "90s", "."],
                       cwd=pkgdir, env=env, capture_output=True, text=True)
    out = r.stdout + r.stderr
    res = {}
    for line in out.splitlines():
        m = re.match(r"VERIF-REPLAY (\S+): (.*)", line)
        if m:
            res[m.group(1)] = m.group(2)
    for p, _ in cexs:
        if p not in res:
            # process died before printing (fatal error, build failure)
            tail = out.strip().splitlines()[-3:] if out.strip() else []
            if "fatal error" in out or "panic:" in out:
                res[p] = "reproduced crash " + " | ".join(tail)
            else:
                res[p] = "replay failed to run: " + " | ".join(tail)
    return res


def main():
    ap = argparse.ArgumentParser()
    ap.add_argument("prop")
    ap.add_argument("--tier", default=os.environ.get("VERIF_TIER", "quick"))
    ap.add_argument("--only", default=None, help="regexp restricting harness names")
    ap.add_argument("--jobs", type=int, default=int(os.environ.get("VERIF_JOBS", "0")) or max(2, (os.cpu_count() or 8) // 2))
    ap.add_argument("--no-replay", action="store_true")
    a = ap.parse_args()
    seed = int(os.environ.get("VERIF_SEED", "0"))
    t0 = time.time()
    spec = json.load(open(os.path.join(VERIF, "checks", a.prop + ".json")))
    build_gosym()
    kf_doc = json.load(open(os.path.join(VERIF, "known_findings.json")))
    kf_by_id = {k["id"]: k for k in kf_doc.get("findings", [])}
    work = tempfile.mkdtemp(prefix="verif-%s-" % a.prop, dir=os.environ.get("TMPDIR", "/tmp"))
    runs = []
    load_errors = []
    try:
        jobs = []
        tv_info = []
        past_cost = {}
        try:
            for h in json.load(open(os.path.join(VERIF, "evidence", a.prop + ".json")))["coverage"]["harnesses"]:
                past_cost[h["id"]] = float(h.get("wall_s") or 0)
        except Exception:
            pass
        if spec.get("prepare"):
            r = subprocess.run([os.path.join(VERIF, spec["prepare"]), work, REPO], env=ENV, capture_output=True, text=True)
            sys.stderr.write(r.stderr)
            try:
                extra = json.loads(r.stdout)
            except ValueError:
                extra = []
                load_errors.append("prepare step failed: " + (r.stdout + r.stderr)[-300:])
            for g in extra:
                if "error" in g:
                    load_errors.append("prepare: " + g["error"])
                else:
                    spec["groups"].append(g)
                    tv_info.append(g.get("tv"))
        for gi, g in enumerate(spec["groups"]):
            names, err = list_harnesses(g)
            if names is None:
                load_errors.append("group %d (%s): harness does not load against this tree: %s" % (gi, g["run"], err.strip()[-400:]))
                continue
            if a.only:
                names = [n for n in names if re.search(a.only, n)]
            if a.tier != "thorough":
                names = [n for n in names if not any(re.fullmatch(x, n) for x in spec.get("thorough_only", []))]
            if not names:
                continue
            cfgpath = os.path.join(work, "cfg%d.json" % gi)
            json.dump(g.get("cfg", {}), open(cfgpath, "w"))
            if len(names) <= 48 and "shards" not in g:
                # one process per harness, slowest first (times of the last recorded run), so that
                # the long harnesses start at once and never queue behind each other
                shards = [[n] for n in sorted(names, key=lambda n: -past_cost.get(n, 5.0))]
            else:
                nshards = max(1, min(len(names), g.get("shards", a.jobs)))
                shards = [names[i::nshards] for i in range(nshards)]
            tmo = g.get("solver_timeout_ms", {}).get(a.tier, 30000 if a.tier == "quick" else 60000)
            for si, sh in enumerate(shards):
                jobs.append((g, sh, a.tier, cfgpath, os.path.join(work, "out%d_%d.json" % (gi, si)), tmo))
        jobs.sort(key=lambda j: -sum(past_cost.get(n, 5.0) for n in j[1]))
        with concurrent.futures.ThreadPoolExecutor(max_workers=a.jobs) as ex:
            for (out, rc, err, dt), job in zip(ex.map(run_shard, jobs), jobs):
                sys.stderr.write(err)
                if os.path.exists(out):
                    for ro in json.load(open(out)):
                        ro["_group"] = job[0]
                        runs.append(ro)
                else:
                    load_errors.append("shard failed rc=%d: %s" % (rc, err.strip()[-300:]))

        # ---- counterexamples: replay ----
        repdir = os.environ.get("VERIF_REPLAY_DIR", os.path.join(VERIF, "replays"))
        os.makedirs(repdir, exist_ok=True)
        violations = []   # reproduced
        unconfirmed = []
        by_group = {}
        for ro in runs:
            for k, c in enumerate(ro.get("counterexamples") or []):
                p = os.path.join(repdir, "%s-%s-%d.json" % (a.prop, ro["harness"], k))
                json.dump(c, open(p, "w"), indent=1)
                by_group.setdefault(id(ro["_group"]), (ro["_group"], []))[1].append((p, c))
        for _, (g, cexs) in by_group.items():
            closed = [(p, c) for p, c in cexs if not c.get("open")]
            opened = [(p, c) for p, c in cexs if c.get("open")]
            res = {}
            if closed and not a.no_replay:
                res = replay(g, closed, work)
            for p, c in closed:
                oc = res.get(p, "replay skipped")
                c["_replay"] = oc
                if oc.startswith("reproduced"):
                    violations.append((p, c, oc))
                else:
                    unconfirmed.append((p, c, oc))
            for p, c in opened:
                # open-mode witnesses are paths; they are reported with the path witness as artefact
                violations.append((p, c, "path witness (open harness)"))

        # ---- evidence ----
        n_obl = n_dis = n_triv = n_unknown = 0
        harness_out = []
        funcs = {}
        samples = []
        inconcl = list(load_errors)
        solver_tot = {}
        paths = 0
        distinct_paths = 0
        kf_lines = []
        for ro in runs:
            r = ro["result"]
            paths += r["paths"]
            distinct_paths += r["paths_completed"]
            for o in ro.get("obligations") or []:
                n_obl += o["checked"]
                n_triv += o["trivial"]
                n_unknown += o["unknown"]
                n_dis += o["checked"] - o["violated"] - o["unknown"] - o["known_only"]
            for f in ro.get("functions_encoded") or []:
                funcs[f["name"]] = True
            for s, st in (ro.get("solver") or {}).items():
                t = solver_tot.setdefault(s, {"queries": 0, "answered": 0, "time_s": 0.0, "unknown": 0})
                for k in t:
                    t[k] += st.get(k, 0)
            for m in r.get("inconclusive") or []:
                inconcl.append("%s: %s" % (ro["harness"], m))
            if ro["verdict"] == "vacuous":
                inconcl.append("%s: vacuous (no path completed, no reach witness)" % ro["harness"])
            for k in r.get("known_findings") or []:
                kf = kf_by_id.get(k, {})
                kf_lines.append("KNOWN-FINDING: property=%s %s [%s in %s]" % (a.prop, kf.get("what", k), k, ro["harness"]))
            harness_out.append({
                "id": ro["harness"], "verdict": ro["verdict"], "bounds": (ro["cfg"] or {}).get("bounds"),
                "unwind": (ro["cfg"] or {}).get("unwind"), "assumptions": (ro["cfg"] or {}).get("assumptions"),
                "paths": r["paths"], "paths_completed": r["paths_completed"], "forks": r["forks"], "steps": r["steps"],
                "merged_regions": r["merged_regions"], "unwind_cuts": r["unwind_cuts"], "reach_witnesses": r["reach"],
                "stubs": r["stubs"], "wall_s": round(r["wall_s"], 2),
                "obligations": [{"id": o["id"], "kind": o["kind"], "checked": o["checked"], "trivially_true": o["trivial"],
                                 "verdict": o["verdict"], "site": o.get("site")} for o in (ro.get("obligations") or [])],
                "solver": ro.get("solver"), "inconclusive": r.get("inconclusive"),
            })
            for s in (r.get("samples") or [])[:2]:
                if len(samples) < 12:
                    samples.append({"harness": ro["harness"], "case": s})
        src_files = {}
        for g in spec["groups"]:
            if "repo" in g:
                continue
            d = os.path.normpath(os.path.join(REPO, g["pkg"]))
            for f in sorted(glob.glob(d + "/*.go")):
                if not f.endswith("_test.go"):
                    src_files[os.path.relpath(f, REPO)] = sha(f)
        for p, c, oc in violations:
            samples.append({"counterexample": os.path.relpath(p, VERIF), "obligation": c["obligation"], "replay": oc})
        if not samples:
            samples.append({"note": "no path completed"})
        ev = {
            "property_id": a.prop, "tier": a.tier, "seed": seed, "level": spec.get("level", "other"),
            "wall_s": round(time.time() - t0, 2), "violations": len(violations),
            "coverage": {
                "explanation": spec.get("explanation", "bounded symbolic execution of go/ssa (rebuilt from /repo's working tree) + SMT; one obligation = one solver-decided assertion or implicit safety condition (bounds, nil, division, panic) on one path"),
                "technique": spec.get("technique"),
                "obligations": n_obl, "discharged": n_dis, "trivially_true": n_triv, "inconclusive_obligations": n_unknown,
                "evaluations": paths, "distinct_nontrivial": distinct_paths,
                "rule": "one evaluation = one explored symbolic path of one harness (each path stands for all inputs satisfying its path condition); distinct_nontrivial counts paths that ran to completion of the harness (distinct branch-decision vectors by construction of the DFS)",
                "samples": samples,
                "harnesses": harness_out,
                "functions_encoded": sorted(funcs),
                "source_files_sha256": src_files,
                "solver_totals": solver_tot,
                "inconclusive": inconcl,
                "unconfirmed_counterexamples": [{"file": os.path.relpath(p, VERIF), "obligation": c["obligation"], "harness": c["harness"], "replay": oc} for p, c, oc in unconfirmed],
                "known_findings_matched": sorted(set(kf_lines)),
                "outside_claim": spec.get("outside_claim", []),
                "translation_validation": tv_info,
                "programs": sum(1 for ro in runs if ro["harness"].startswith("VH_TV_")) or len(runs),
                "disagreements_checked": n_obl,
                "checker_cmd": "./check.py %s --tier %s" % (a.prop, a.tier),
                "trusted_base": ["go/ssa (x/tools v0.29.0)", "gosym instruction semantics and intrinsic models", "harness reference models and invariants under /verif/harness", "z3 4.8.12 / cvc5 1.0.x / z3 5.1.0"],
            },
            "assumptions": spec.get("assumptions", []),
        }
        evdir = os.environ.get("VERIF_EVIDENCE_DIR", os.path.join(VERIF, "evidence"))
        os.makedirs(evdir, exist_ok=True)
        json.dump(ev, open(os.path.join(evdir, a.prop + ".json"), "w"), indent=1)
        for l in sorted(set(kf_lines)):
            print(l)
        for p, c, oc in unconfirmed:
            print("UNCONFIRMED property=%s obligation=%s harness=%s replay=%s (%s)" % (a.prop, c["obligation"], c["harness"], os.path.relpath(p, VERIF), oc))
        for m in inconcl[:20]:
            print("INCONCLUSIVE property=%s %s" % (a.prop, m))
        # loops / recursion cut by the unwinding bound: the claim is bounded there (not a failure)
        for h in ev["coverage"]["harnesses"]:
            cuts = {k: v for k, v in (h.get("unwind_cuts") or {}).items() if k.startswith("loop:") or k.startswith("recursion")}
            if cuts:
                print("BOUNDED property=%s %s: unwinding bound %s cut %s" % (a.prop, h["id"], h.get("unwind"), ", ".join("%s x%d" % kv for kv in sorted(cuts.items()))))
        print("SUMMARY property=%s tier=%s harnesses=%d paths=%d obligations=%d discharged=%d violations=%d unconfirmed=%d inconclusive=%d wall=%.1fs" % (
            a.prop, a.tier, len(runs), paths, n_obl, n_dis, len(violations), len(unconfirmed), len(inconcl), time.time() - t0))
        if violations:
            for p, c, oc in violations:
                print("VIOLATION property=%s replay=%s obligation=%s harness=%s (%s)" % (a.prop, os.path.relpath(p, VERIF), c["obligation"], c["harness"], oc))
            sys.exit(1)
        sys.exit(0)
    finally:
        shutil.rmtree(work, ignore_errors=True)


if __name__ == "__main__":
    main()

module verif/c15tv

go 1.16

require capnproto.org/go/capnp/v3 v3.0.0

replace capnproto.org/go/capnp/v3 => /repo

// c15tv reads a CodeGeneratorRequest with an independent reader of schema.capnp's layout (plain
// Struct.UintN / Ptr calls, cross-checked against the std/capnp/schema accessors), and emits, for
// every struct / group / union member it can name in the generated Go package, a harness function
// that states what the schema says the generated accessor must do.
//
// usage: c15tv <request.out> <generated.go> <pkgname> <out-harness.go>
package main

import (
	"fmt"
	"go/ast"
	"go/parser"
	"go/token"
	"os"
	"sort"
	"strings"
	"unicode"

	"capnproto.org/go/capnp/v3"
	"capnproto.org/go/capnp/v3/std/capnp/schema"
)

type fieldSpec struct {
	name      string
	isGroup   bool
	groupID   uint64
	offset    uint32
	typ       uint16 // Type.which
	defBits   uint64
	defBool   bool
	discValue uint16 // 0xffff = none
	annotated bool
	elemTyp   uint16 // list fields: Type.which of the element type
	targetID  uint64 // struct fields and lists of structs: the node id of the struct type
}

type nodeSpec struct {
	id          uint64
	short       string
	scope       uint64
	which       uint16
	dataWords   uint16
	ptrs        uint16
	isGroup     bool
	discCount   uint16
	discOffset  uint32
	fields      []fieldSpec
	annotated   bool
	file        bool
	displayName string
}

func must(err error) {
	if err != nil {
		fmt.Fprintln(os.Stderr, "c15tv:", err)
		os.Exit(2)
	}
}

func text(s capnp.Struct, i uint16) string {
	p, err := s.Ptr(i)
	must(err)
	return p.Text()
}

func list(s capnp.Struct, i uint16) capnp.List {
	p, err := s.Ptr(i)
	must(err)
	return p.List()
}

func substruct(s capnp.Struct, i uint16) capnp.Struct {
	p, err := s.Ptr(i)
	must(err)
	return p.Struct()
}

func valueBits(v capnp.Struct, typ uint16) (uint64, bool) {
	if !v.IsValid() {
		return 0, false
	}
	switch typ {
	case 1:
		return 0, v.Bit(16)
	case 2, 6:
		return uint64(v.Uint8(2)), false
	case 3, 7, 15:
		return uint64(v.Uint16(2)), false
	case 4, 8, 10:
		return uint64(v.Uint32(4)), false
	case 5, 9, 11:
		return v.Uint64(8), false
	}
	return 0, false
}

func main() {
	if len(os.Args) != 5 {
		fmt.Fprintln(os.Stderr, "usage: c15tv request generated.go pkg out.go")
		os.Exit(2)
	}
	f, err := os.Open(os.Args[1])
	must(err)
	msg, err := capnp.NewDecoder(f).Decode()
	must(err)
	rootp, err := msg.Root()
	must(err)
	req := rootp.Struct()
	nodes := map[uint64]*nodeSpec{}
	nl := list(req, 0)
	for i := 0; i < nl.Len(); i++ {
		n := nl.Struct(i)
		ns := &nodeSpec{id: n.Uint64(0), scope: n.Uint64(16), which: n.Uint16(12)}
		dn := text(n, 0)
		ns.displayName = dn
		pl := int(n.Uint32(8))
		if pl <= len(dn) {
			ns.short = dn[pl:]
		}
		ns.annotated = list(n, 2).Len() > 0
		ns.file = ns.which == 0
		if ns.which == 1 {
			ns.dataWords = n.Uint16(14)
			ns.ptrs = n.Uint16(24)
			ns.isGroup = n.Bit(224)
			ns.discCount = n.Uint16(30)
			ns.discOffset = n.Uint32(32)
			fl := list(n, 3)
			for j := 0; j < fl.Len(); j++ {
				fs := fl.Struct(j)
				sp := fieldSpec{name: text(fs, 0), discValue: fs.Uint16(2) ^ 0xffff, annotated: list(fs, 1).Len() > 0}
				if fs.Uint16(8) == 1 {
					sp.isGroup = true
					sp.groupID = fs.Uint64(16)
				} else {
					sp.offset = fs.Uint32(4)
					t := substruct(fs, 2)
					sp.typ = t.Uint16(0)
					switch sp.typ {
					case 16:
						sp.targetID = t.Uint64(8)
					case 14:
						et := substruct(t, 0)
						sp.elemTyp = et.Uint16(0)
						if sp.elemTyp == 16 {
							sp.targetID = et.Uint64(8)
						}
					}
					sp.defBits, sp.defBool = valueBits(substruct(fs, 3), sp.typ)
				}
				ns.fields = append(ns.fields, sp)
			}
		}
		nodes[ns.id] = ns
	}
	// cross-check the raw reader against the generated schema accessors
	creq, err := schema.ReadRootCodeGeneratorRequest(msg)
	must(err)
	cn, err := creq.Nodes()
	must(err)
	for i := 0; i < cn.Len(); i++ {
		n := cn.At(i)
		ns := nodes[n.Id()]
		if ns == nil || uint16(n.Which()) != ns.which {
			must(fmt.Errorf("raw reader disagrees with schema accessors on node %d", i))
		}
		if n.Which() == schema.Node_Which_structNode {
			sn := n.StructNode()
			if sn.DataWordCount() != ns.dataWords || sn.PointerCount() != ns.ptrs || sn.DiscriminantOffset() != ns.discOffset || sn.IsGroup() != ns.isGroup {
				must(fmt.Errorf("raw reader disagrees with schema accessors on struct node %x", n.Id()))
			}
			fl, _ := sn.Fields()
			for j := 0; j < fl.Len(); j++ {
				cf := fl.At(j)
				rf := ns.fields[j]
				nm, _ := cf.Name()
				if nm != rf.name || cf.DiscriminantValue() != rf.discValue {
					must(fmt.Errorf("raw reader disagrees on field %s", nm))
				}
				if cf.Which() == schema.Field_Which_slot && cf.Slot().Offset() != rf.offset {
					must(fmt.Errorf("raw reader disagrees on slot offset of %s", nm))
				}
			}
		}
	}
	// Go type name: short names along the scope chain joined by "_"
	goName := func(ns *nodeSpec) (string, bool) {
		var parts []string
		for cur := ns; cur != nil && !cur.file; cur = nodes[cur.scope] {
			if cur.annotated {
				return "", false
			}
			parts = append([]string{cur.short}, parts...)
			if cur.scope == 0 {
				return "", false
			}
		}
		return strings.Join(parts, "_"), true
	}
	// methods available in the generated package
	fset := token.NewFileSet()
	gf, err := parser.ParseFile(fset, os.Args[2], nil, 0)
	must(err)
	methods := map[string]map[string]bool{}
	paramType := map[string]string{} // "Type.Method" -> first parameter type
	funcs := map[string]bool{}
	for _, d := range gf.Decls {
		fd, ok := d.(*ast.FuncDecl)
		if !ok {
			continue
		}
		if fd.Recv == nil {
			funcs[fd.Name.Name] = true
			continue
		}
		if id, ok := fd.Recv.List[0].Type.(*ast.Ident); ok {
			if methods[id.Name] == nil {
				methods[id.Name] = map[string]bool{}
			}
			methods[id.Name][fd.Name.Name] = true
			if fd.Type.Params != nil && len(fd.Type.Params.List) == 1 {
				if pid, ok := fd.Type.Params.List[0].Type.(*ast.Ident); ok {
					paramType[id.Name+"."+fd.Name.Name] = pid.Name
				}
			}
		}
	}
	title := func(s string) string {
		r := []rune(s)
		r[0] = unicode.ToUpper(r[0])
		return string(r)
	}
	var out strings.Builder
	fmt.Fprintf(&out, "package %s\n\n// Generated by c15tv from %s: what the schema says each generated accessor must do.\n\n", os.Args[3], os.Args[1])
	var ids []uint64
	for id := range nodes {
		ids = append(ids, id)
	}
	sort.Slice(ids, func(i, j int) bool { return ids[i] < ids[j] })
	emitted, skipped := 0, 0
	for _, id := range ids {
		ns := nodes[id]
		if ns.which != 1 {
			continue
		}
		tn, ok := goName(ns)
		if !ok || methods[tn] == nil {
			skipped += len(ns.fields)
			continue
		}
		// the struct the accessors work on has the size of the enclosing non-group struct
		base := ns
		for base.isGroup {
			base = nodes[base.scope]
		}
		D, P := int(base.dataWords), int(base.ptrs)
		if !ns.isGroup && funcs["New"+tn] {
			fmt.Fprintf(&out, "func VH_TV_%s__New() {\n\t_, seg := vTVSeg()\n\tx, err := New%s(seg)\n\tvReach(\"entry\")\n\tvAssert(err == nil && int(x.Struct.Size().DataSize) == %d && int(x.Struct.Size().PointerCount) == %d, \"C15.tv.new-allocates-the-schema-size\")\n}\n\n", tn, tn, 8*D, P)
			emitted++
		}
		if ns.discCount > 0 && methods[tn]["Which"] {
			fmt.Fprintf(&out, "func VH_TV_%s__Which() {\n\ts := vTVStruct(%d, %d)\n\tx := %s{Struct: s}\n\tvReach(\"entry\")\n\tvAssert(uint16(x.Which()) == vTVLoad16(s, %d), \"C15.tv.which-reads-the-discriminant\")\n}\n\n", tn, D, P, tn, 2*ns.discOffset)
			emitted++
		}
		for _, f := range ns.fields {
			if f.annotated || f.isGroup {
				skipped++
				continue
			}
			G, S, H := title(f.name), "Set"+title(f.name), "Has"+title(f.name)
			disc := "-1"
			if f.discValue != 0xffff {
				disc = fmt.Sprint(f.discValue)
			}
			common := fmt.Sprintf("%d, %d, %d, %s", D, P, 2*ns.discOffset, disc)
			var bits int
			switch f.typ {
			case 1: // bool
				if methods[tn][G] && methods[tn][S] {
					fmt.Fprintf(&out, "func VH_TV_%s_%s() {\n\ts, j, old := vTVPre(%s)\n\tx := %s{Struct: s}\n\tgot := x.%s()\n\tvAssert(got == (vTVBit(s, %d) != %v), \"C15.tv.bool-getter\")\n\tv := vNondetBool()\n\tvTVScramble(s, %d, %s)\n\tx.%s(v)\n\tvAssert((vTVBit(s, %d) != %v) == v, \"C15.tv.bool-setter\")\n\tvTVPost(s, j, old, %d, 1, %s)\n}\n\n", tn, G, common, tn, G, f.offset, f.defBool, 2*ns.discOffset, disc, S, f.offset, f.defBool, f.offset/8, common)
					emitted++
				} else {
					skipped++
				}
				continue
			case 2, 6:
				bits = 8
			case 3, 7, 15:
				bits = 16
			case 4, 8, 10:
				bits = 32
			case 5, 9, 11:
				bits = 64
			case 0:
				skipped++
				continue
			default: // pointer kinds
				// the setter / allocator of a pointer field makes its union member the active one
				// and fills the slot, starting from ANY other active member
				{
					call := ""
					switch {
					case f.typ == 12 && methods[tn][S]:
						call = fmt.Sprintf("err := x.%s(\"ab\")", S)
					case f.typ == 13 && methods[tn][S]:
						call = fmt.Sprintf("err := x.%s([]byte{1})", S)
					case f.typ == 16 && methods[tn]["New"+title(f.name)]:
						call = fmt.Sprintf("_, err := x.New%s()", title(f.name))
					case f.typ == 14 && methods[tn]["New"+title(f.name)] && paramType[tn+".New"+title(f.name)] == "int32":
						call = fmt.Sprintf("_, err := x.New%s(1)", title(f.name))
					}
					wantD, wantP := -1, -1 // expected size of the allocated struct / list element, if known
					switch {
					case f.typ == 16 && nodes[f.targetID] != nil:
						wantD, wantP = 8*int(nodes[f.targetID].dataWords), int(nodes[f.targetID].ptrs)
					case f.typ == 14:
						switch f.elemTyp {
						case 2, 6:
							wantD, wantP = 1, 0
						case 3, 7, 15:
							wantD, wantP = 2, 0
						case 4, 8, 10:
							wantD, wantP = 4, 0
						case 5, 9, 11:
							wantD, wantP = 8, 0
						case 12, 13, 14, 17, 18:
							wantD, wantP = 0, 1
						case 16:
							if nodes[f.targetID] != nil {
								wantD, wantP = 8*int(nodes[f.targetID].dataWords), int(nodes[f.targetID].ptrs)
							}
						}
					}
					if call != "" {
						fmt.Fprintf(&out, "func VH_TV_%s_%s__fill() {\n\ts := vTVStruct(%d, %d)\n\tvTVScramble(s, %d, %s)\n\tx := %s{Struct: s}\n\tvReach(\"entry\")\n\t%s\n\tvAssert(err == nil, \"C15.tv.pointer-setter-succeeds\")\n\tif err != nil {\n\t\treturn\n\t}\n\tvTVPtrPost(s, %d, %d, %s)\n}\n\n", tn, G, D, P, 2*ns.discOffset, disc, tn, call, f.offset, 2*ns.discOffset, disc)
						emitted++
						if wantD >= 0 {
							fmt.Fprintf(&out, "func VH_TV_%s_%s__size() {\n\ts := vTVStruct(%d, %d)\n\tx := %s{Struct: s}\n\tvReach(\"entry\")\n\t%s\n\tif err != nil {\n\t\treturn\n\t}\n\tvTVSizePost(s, %d, %v, %d, %d)\n}\n\n", tn, G, D, P, tn, call, f.offset, f.typ == 14, wantD, wantP)
							emitted++
						}
					}
				}
				if methods[tn][H] {
					fmt.Fprintf(&out, "func VH_TV_%s_%s() {\n\ts, _, _ := vTVPre(%s)\n\tx := %s{Struct: s}\n\tvAssert(x.%s() == s.HasPtr(%d), \"C15.tv.has-reads-the-pointer-slot\")\n}\n\n", tn, H, common, tn, H, f.offset)
					emitted++
				} else {
					skipped++
				}
				continue
			}
			if !methods[tn][G] || !methods[tn][S] || (paramType[tn+"."+S] == "" ) {
				skipped++
				continue
			}
			byteOff := uint64(f.offset) * uint64(bits/8)
			isFloat := f.typ == 10 || f.typ == 11
			conv := fmt.Sprintf("uint%d", bits)
			getExpr := fmt.Sprintf("uint64(%s(x.%s()))", conv, G)
			setArg := "v"
			if isFloat {
				getExpr = fmt.Sprintf("uint64(vTVFloat%dbits(x.%s()))", bits, G)
				setArg = fmt.Sprintf("vTVFloat%dfrombits(uint%d(v))", bits, bits)
			}
			fmt.Fprintf(&out, "func VH_TV_%s_%s() {\n\ts, j, old := vTVPre(%s)\n\tx := %s{Struct: s}\n\tgot := %s\n\tvAssert(got == vTVLoad(s, %d, %d)^%d, \"C15.tv.getter-reads-field-xor-default\")\n", tn, G, common, tn, getExpr, byteOff, bits/8, f.defBits)
			fmt.Fprintf(&out, "\tv := vNondetU64() & %d\n\tvTVScramble(s, %d, %s)\n", (uint64(1)<<uint(bits))-1, 2*ns.discOffset, disc)
			if isFloat {
				fmt.Fprintf(&out, "\tx.%s(%s)\n", S, setArg)
			} else {
				fmt.Fprintf(&out, "\tx.%s(vTVConv_%s_%s(v))\n", S, tn, G)
			}
			fmt.Fprintf(&out, "\tvAssert(vTVLoad(s, %d, %d) == v^%d, \"C15.tv.setter-writes-value-xor-default\")\n\tvTVPost(s, j, old, %d, %d, %s)\n}\n\n", byteOff, bits/8, f.defBits, byteOff, bits/8, common)
			if !isFloat {
				// conversion helper with the accessor's own parameter type (enum, intN, uintN)
				fmt.Fprintf(&out, "func vTVConv_%s_%s(v uint64) %s { return %s(v) }\n\n", tn, G, paramType[tn+"."+S], paramType[tn+"."+S])
			}
			emitted++
		}
	}
	fmt.Fprintf(&out, "// emitted %d harnesses, skipped %d members (annotated names, groups as members, void fields, missing accessors)\n", emitted, skipped)
	must(os.WriteFile(os.Args[4], []byte(out.String()), 0644))
	fmt.Printf("%d %d\n", emitted, skipped)
}

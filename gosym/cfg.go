package main

// Per-function CFG facts: loop membership, reachability, immediate post-dominators.

import (
	"golang.org/x/tools/go/ssa"
)

type FnInfo struct {
	fn     *ssa.Function
	reach  [][]bool // reach[a][b]: b reachable from a by >= 1 edge
	inLoop []bool
	ipdom  []int // immediate post-dominator block index (-1: none / exit)
}

func (e *Engine) info(fn *ssa.Function) *FnInfo {
	if fi, ok := e.fnInfo[fn]; ok {
		return fi
	}
	n := len(fn.Blocks)
	fi := &FnInfo{fn: fn, reach: make([][]bool, n), inLoop: make([]bool, n)}
	for i := range fi.reach {
		fi.reach[i] = make([]bool, n)
	}
	for _, b := range fn.Blocks {
		// DFS from b's successors
		var stack []*ssa.BasicBlock
		stack = append(stack, b.Succs...)
		for len(stack) > 0 {
			x := stack[len(stack)-1]
			stack = stack[:len(stack)-1]
			if fi.reach[b.Index][x.Index] {
				continue
			}
			fi.reach[b.Index][x.Index] = true
			stack = append(stack, x.Succs...)
		}
	}
	for i := 0; i < n; i++ {
		fi.inLoop[i] = fi.reach[i][i]
	}
	fi.computeIpdom()
	e.fnInfo[fn] = fi
	return fi
}

func (fi *FnInfo) reaches(a, b *ssa.BasicBlock) bool {
	return a == b || fi.reach[a.Index][b.Index]
}

// computeIpdom: iterative post-dominator sets on the reverse CFG with a virtual exit.
func (fi *FnInfo) computeIpdom() {
	n := len(fi.fn.Blocks)
	exit := n
	// pdom sets as bitsets over n+1 nodes
	words := (n + 1 + 63) / 64
	full := make([]uint64, words)
	for i := 0; i <= n; i++ {
		full[i/64] |= 1 << uint(i%64)
	}
	pd := make([][]uint64, n+1)
	for i := 0; i <= n; i++ {
		pd[i] = append([]uint64(nil), full...)
	}
	pd[exit] = make([]uint64, words)
	pd[exit][exit/64] |= 1 << uint(exit%64)
	succs := func(i int) []int {
		b := fi.fn.Blocks[i]
		if len(b.Succs) == 0 {
			return []int{exit}
		}
		out := make([]int, len(b.Succs))
		for k, s := range b.Succs {
			out[k] = s.Index
		}
		return out
	}
	changed := true
	for changed {
		changed = false
		for i := n - 1; i >= 0; i-- {
			nw := append([]uint64(nil), full...)
			for _, s := range succs(i) {
				for w := range nw {
					nw[w] &= pd[s][w]
				}
			}
			nw[i/64] |= 1 << uint(i%64)
			for w := range nw {
				if nw[w] != pd[i][w] {
					changed = true
				}
			}
			pd[i] = nw
		}
	}
	has := func(set []uint64, i int) bool { return set[i/64]&(1<<uint(i%64)) != 0 }
	count := func(set []uint64) int {
		c := 0
		for i := 0; i <= n; i++ {
			if has(set, i) {
				c++
			}
		}
		return c
	}
	fi.ipdom = make([]int, n)
	for i := 0; i < n; i++ {
		fi.ipdom[i] = -1
		// the immediate post-dominator is the strict post-dominator with the largest pdom set
		best, bestc := -1, -1
		for j := 0; j <= n; j++ {
			if j == i || !has(pd[i], j) {
				continue
			}
			c := count(pd[j])
			if c > bestc {
				best, bestc = j, c
			}
		}
		if best >= 0 && best != exit {
			fi.ipdom[i] = best
		}
	}
}

package main

import (
	"fmt"
	"go/types"

	"golang.org/x/tools/go/ssa"
)

type Deferred struct {
	fn   *FuncVal
	args []Value
	ins  ssa.Instruction
}

type Frame struct {
	id       int
	fn       *ssa.Function
	regs     map[ssa.Value]Value
	bind     []Value
	blk      *ssa.BasicBlock
	prev     *ssa.BasicBlock
	ip       int
	defers   []*Deferred
	resultTo ssa.Value // register in the caller receiving the result (nil: discard)
	catch    bool      // frame started by vPanics: a panic unwinding past it is caught
	// panic unwinding / defers
	inDefers  bool       // currently running deferred calls (RunDefers)
	panicking *PanicInfo // panic this frame is unwinding with while one of its deferred calls runs
	isDeferd  bool       // this frame is a deferred call
	recovered bool       // a deferred call recovered the panic: finish defers, then return normally
	visits    map[*ssa.BasicBlock]int
	forks     map[ssa.Instruction]int
	// merge arm bookkeeping
	goFrame bool // frame of a deferred goroutine run while its spawner waits
	stopAt  *ssa.BasicBlock
	stopped bool
}

func (f *Frame) clone() *Frame {
	g := *f
	g.regs = make(map[ssa.Value]Value, len(f.regs)+8)
	for k, v := range f.regs {
		g.regs[k] = v
	}
	g.defers = append([]*Deferred(nil), f.defers...)
	if f.forks != nil {
		g.forks = make(map[ssa.Instruction]int, len(f.forks))
		for k, v := range f.forks {
			g.forks[k] = v
		}
	}
	if f.visits != nil {
		g.visits = make(map[*ssa.BasicBlock]int, len(f.visits))
		for k, v := range f.visits {
			g.visits[k] = v
		}
	}
	return &g
}

type NondetRec struct {
	Kind  string // u8 u16 u32 u64 int bool bytes
	term  *Term
	bytes *Mem
	n     *Term
}

type Event struct {
	name string
	args []*Term
	s    string
}

type PanicInfo struct {
	val  Value
	kind string // "explicit", "typeassert", "goexit"
	site string
	msg  string
}

type State struct {
	id       int
	frames   []*Frame
	heap     map[int]*Obj
	pc       []*Term
	known    map[int]uint64
	nondets  []NondetRec
	events   []Event
	locks    map[string]int
	tags     map[string]*Term
	regions  map[string]*Term
	globals  map[*ssa.Global]int
	once     map[string]bool
	steps    int
	panic_   *PanicInfo
	trace    []string
	allocSum *Term
	allocMax *Term
	nAllocs  int
	cuts     []string
	depth    int
	// open mode
	open     *OpenState
	ghost    map[string]*Term
	path     []string // decisions (for witnesses)
	blockedAt string
	par           *ParState
	nonReplayable bool
	noBlock       bool
	pendingGo     []*Deferred
	goDepth       int
	goStack       []int     // ids of the goroutines currently running nested on this stack
	goSeq         int       // goroutine ids handed out
	parked        []*Parked // goroutines that wait for something (cooperative scheduling)
	epoch         int       // bumped by every operation that can wake a waiting goroutine
	choiceSeq     int
	lockOwner     map[string]int // vPar: 1 + thread that holds the mutex
	fmtArgs   []Value
	lastTokOperands []Value
	tokLog          []tokRec // every strconv.Append* call of the path, in order
	inArm    int // > 0 while executing one arm of a diamond that is being merged
	dead     bool
	finished bool
}

func (s *State) clone() *State {
	t := *s
	t.frames = make([]*Frame, len(s.frames))
	for i, f := range s.frames {
		t.frames[i] = f.clone()
	}
	t.heap = make(map[int]*Obj, len(s.heap)+8)
	for k, v := range s.heap {
		t.heap[k] = v
	}
	t.pc = s.pc[:len(s.pc):len(s.pc)]
	t.known = make(map[int]uint64, len(s.known))
	for k, v := range s.known {
		t.known[k] = v
	}
	t.nondets = s.nondets[:len(s.nondets):len(s.nondets)]
	t.events = s.events[:len(s.events):len(s.events)]
	t.trace = s.trace[:len(s.trace):len(s.trace)]
	t.cuts = s.cuts[:len(s.cuts):len(s.cuts)]
	t.path = s.path[:len(s.path):len(s.path)]
	t.locks = make(map[string]int, len(s.locks))
	for k, v := range s.locks {
		t.locks[k] = v
	}
	t.tags = make(map[string]*Term, len(s.tags))
	for k, v := range s.tags {
		t.tags[k] = v
	}
	t.regions = make(map[string]*Term, len(s.regions))
	for k, v := range s.regions {
		t.regions[k] = v
	}
	t.globals = make(map[*ssa.Global]int, len(s.globals))
	for k, v := range s.globals {
		t.globals[k] = v
	}
	t.once = make(map[string]bool, len(s.once))
	for k, v := range s.once {
		t.once[k] = v
	}
	t.ghost = make(map[string]*Term, len(s.ghost))
	for k, v := range s.ghost {
		t.ghost[k] = v
	}
	if s.open != nil {
		t.open = s.open.clone()
	}
	t.goStack = append([]int(nil), s.goStack...)
	if len(s.parked) > 0 {
		t.parked = make([]*Parked, len(s.parked))
		for i, p := range s.parked {
			t.parked[i] = p.clone()
		}
	}
	if s.par != nil {
		t.par = s.par.clone()
		// the running stack is t.frames (already cloned); keep par.stacks[cur] unused
	}
	return &t
}

func (s *State) setLockOwner(k string, t int) {
	m := make(map[string]int, len(s.lockOwner)+1)
	for a, b := range s.lockOwner {
		m[a] = b
	}
	m[k] = t
	s.lockOwner = m
}

func (s *State) top() *Frame { return s.frames[len(s.frames)-1] }

var objSeq int

func (s *State) newObj(v Value, t types.Type, name string) int {
	objSeq++
	s.heap[objSeq] = &Obj{val: v, typ: t, name: name}
	return objSeq
}

func (s *State) assume(t *Term) {
	if t.IsTrue() {
		return
	}
	s.pc = append(s.pc, t)
}

func (s *State) load(p *PtrVal) Value {
	o := s.heap[p.obj]
	if o == nil {
		panic(fmt.Sprintf("load: no object %d", p.obj))
	}
	v := getAt(o.val, p.path)
	if p.idx != nil {
		b := v.(*BytesVal)
		return memSelect(b.mem, p.idx)
	}
	return v
}

func (s *State) store(p *PtrVal, v Value) {
	o := s.heap[p.obj]
	if o == nil {
		panic(fmt.Sprintf("store: no object %d", p.obj))
	}
	var nv Value
	if p.idx != nil {
		b := getAt(o.val, p.path).(*BytesVal)
		nb := &BytesVal{mem: memStore(b.mem, p.idx, v.(*Term)), n: b.n}
		nv = setAt(o.val, p.path, nb)
	} else {
		nv = setAt(o.val, p.path, v)
	}
	no := *o
	no.val = nv
	s.heap[p.obj] = &no
}

func (s *State) bytesAt(obj int, path []int) *BytesVal {
	o := s.heap[obj]
	b, ok := getAt(o.val, path).(*BytesVal)
	if !ok {
		panic(fmt.Sprintf("bytesAt: %T", getAt(o.val, path)))
	}
	return b
}

func (s *State) setBytesAt(obj int, path []int, b *BytesVal) {
	o := s.heap[obj]
	no := *o
	no.val = setAt(o.val, path, b)
	s.heap[obj] = &no
}

type tokRec struct {
	fn  string
	ops []Value
}

// Parked is a goroutine that has been started and waits for something.
type Parked struct {
	id     int
	frames []*Frame
	epoch  int // value of State.epoch when it parked: it is resumed only after something changed
	what   string
}

func (p *Parked) clone() *Parked {
	q := *p
	q.frames = make([]*Frame, len(p.frames))
	for i, f := range p.frames {
		q.frames[i] = f.clone()
	}
	return &q
}

// tid identifies the running thread: a goroutine started from a go statement, a vPar thread, or
// the harness goroutine.
func (s *State) tid() int {
	if n := len(s.goStack); n > 0 {
		return s.goStack[n-1]
	}
	if s.par != nil {
		return s.par.cur + 1
	}
	return 100
}

// heldByOther: the mutex is held by a different thread that is still alive (a parked goroutine, a
// goroutine lower on the stack, the other vPar thread). A mutex left locked by a goroutine that has
// finished counts as held by whoever looks (it is a leak).
func (s *State) heldByOther(k string) bool {
	o := s.lockOwner[k]
	if o == 0 || o == s.tid() {
		return false
	}
	if s.par != nil && (o == 1 || o == 2) {
		return true
	}
	for _, p := range s.parked {
		if p.id == o {
			return true
		}
	}
	for _, g := range s.goStack {
		if g == o {
			return true
		}
	}
	if o == 100 && len(s.goStack) > 0 {
		return true // the harness goroutine, below on the stack
	}
	return false
}

package main

// Value-producing SSA instructions, builtins, maps.

import (
	"fmt"
	"go/token"
	"go/types"

	"golang.org/x/tools/go/ssa"
)

func asTerm(v Value) *Term {
	t, ok := v.(*Term)
	if !ok {
		unsupp("expected scalar, got %T", v)
	}
	return t
}

func (e *Engine) stepValue(st *State, f *Frame, x ssa.Value, ins ssa.Instruction) int {
	switch x := x.(type) {
	case *ssa.Alloc:
		elem := x.Type().(*types.Pointer).Elem()
		id := st.newObj(zeroValue(elem), elem, x.Comment)
		f.regs[x] = &PtrVal{obj: id}
	case *ssa.Phi:
		panic("phi executed out of line")
	case *ssa.BinOp:
		v, ok := e.binop(st, x.Op, e.eval(st, f, x.X), e.eval(st, f, x.Y), x.X.Type(), x.Y.Type(), ins)
		if !ok {
			return stDone
		}
		f.regs[x] = v
	case *ssa.UnOp:
		return e.unop(st, f, x)
	case *ssa.ChangeType:
		f.regs[x] = e.eval(st, f, x.X)
	case *ssa.Convert:
		f.regs[x] = e.convert(st, e.eval(st, f, x.X), x.X.Type(), x.Type())
	case *ssa.ChangeInterface:
		f.regs[x] = e.eval(st, f, x.X)
	case *ssa.MakeInterface:
		f.regs[x] = &IfaceVal{t: x.X.Type(), v: e.eval(st, f, x.X)}
	case *ssa.MakeClosure:
		fn := x.Fn.(*ssa.Function)
		var bind []Value
		for _, b := range x.Bindings {
			bind = append(bind, e.eval(st, f, b))
		}
		f.regs[x] = &FuncVal{fn: fn, bind: bind}
	case *ssa.MakeMap:
		id := st.newObj(&MapContent{}, x.Type(), "map")
		f.regs[x] = &MapVal{obj: id}
	case *ssa.MakeChan:
		n := asTerm(e.eval(st, f, x.Size))
		cn := 0
		if n.IsConst() {
			cn = int(n.k)
		} else {
			v, ok := e.concretize(st, n, "makechan-cap")
			if !ok {
				return stDone
			}
			cn = int(v)
		}
		id := st.newObj(&ChanContent{capN: cn}, x.Type(), "chan")
		f.regs[x] = &ChanVal{obj: id}
	case *ssa.MakeSlice:
		return e.makeSlice(st, f, x)
	case *ssa.Slice:
		return e.sliceOp(st, f, x)
	case *ssa.FieldAddr:
		p := e.eval(st, f, x.X).(*PtrVal)
		if !e.nilCheck(st, p, ins) {
			return stDone
		}
		if st.open != nil {
			e.lazyTouch(st, p, x.Field)
		}
		f.regs[x] = &PtrVal{obj: p.obj, path: appendPath(p.path, x.Field)}
	case *ssa.Field:
		s := e.eval(st, f, x.X).(*StructVal)
		f.regs[x] = s.f[x.Field]
	case *ssa.IndexAddr:
		return e.indexAddr(st, f, x)
	case *ssa.Index:
		return e.index(st, f, x)
	case *ssa.Lookup:
		return e.lookup(st, f, x)
	case *ssa.Extract:
		t := e.eval(st, f, x.Tuple).(*TupleVal)
		f.regs[x] = t.e[x.Index]
	case *ssa.TypeAssert:
		return e.typeAssert(st, f, x)
	case *ssa.Range:
		return e.rangeInit(st, f, x)
	case *ssa.Next:
		return e.rangeNext(st, f, x)
	case *ssa.Select:
		return e.doSelect(st, f, x)
	case *ssa.SliceToArrayPointer:
		s := e.eval(st, f, x.X).(*SliceVal)
		n := x.Type().(*types.Pointer).Elem().Underlying().(*types.Array).Len()
		if !e.require(st, Sle(c64(n), s.len), "bounds@"+siteFn(ins), "bounds", site(ins)) {
			return stDone
		}
		unsupp("slice to array pointer")
	default:
		unsupp("value instruction %T", x)
	}
	f.ip++
	return stCont
}

// ---------- arithmetic ----------

func (e *Engine) binop(st *State, op token.Token, a, b Value, ta, tb types.Type, ins ssa.Instruction) (Value, bool) {
	switch x := a.(type) {
	case *Term:
		y := asTerm(b)
		if isFloat(ta) {
			return e.floatOp(op, x, y), true
		}
		return e.intOp(st, op, x, y, ta, tb, ins)
	case *StrVal:
		y := b.(*StrVal)
		switch op {
		case token.ADD:
			return e.strConcat(st, x, y), true
		case token.EQL:
			return e.strEq(st, x, y), true
		case token.NEQ:
			return Not(e.strEq(st, x, y)), true
		case token.LSS, token.GTR, token.LEQ, token.GEQ:
			if x.conc && y.conc {
				var r bool
				switch op {
				case token.LSS:
					r = x.s < y.s
				case token.GTR:
					r = x.s > y.s
				case token.LEQ:
					r = x.s <= y.s
				case token.GEQ:
					r = x.s >= y.s
				}
				return Bool(r), true
			}
		}
		unsupp("string op %s on symbolic strings", op)
	}
	// equality on reference-like values
	switch op {
	case token.EQL:
		return e.valueEq(st, a, b), true
	case token.NEQ:
		return Not(e.valueEq(st, a, b)), true
	}
	unsupp("binop %s on %T", op, a)
	return nil, false
}

func (e *Engine) floatOp(op token.Token, x, y *Term) Value {
	name := fmt.Sprintf("f%s%d", map[token.Token]string{token.ADD: "add", token.SUB: "sub", token.MUL: "mul", token.QUO: "div",
		token.EQL: "eq", token.NEQ: "ne", token.LSS: "lt", token.LEQ: "le", token.GTR: "gt", token.GEQ: "ge"}[op], x.w)
	switch op {
	case token.EQL, token.LSS, token.LEQ, token.GTR, token.GEQ:
		return UF(name, 0, x, y)
	case token.NEQ:
		return Not(UF(fmt.Sprintf("feq%d", x.w), 0, x, y))
	}
	return UF(name, x.w, x, y)
}

func (e *Engine) intOp(st *State, op token.Token, x, y *Term, ta, tb types.Type, ins ssa.Instruction) (Value, bool) {
	if x.w == 0 {
		switch op {
		case token.EQL:
			return Eq(x, y), true
		case token.NEQ:
			return Not(Eq(x, y)), true
		case token.AND, token.LAND:
			return And(x, y), true
		case token.OR, token.LOR:
			return Or(x, y), true
		case token.XOR:
			return Not(Eq(x, y)), true
		}
		unsupp("bool op %s", op)
	}
	signed := isSigned(ta)
	switch op {
	case token.ADD:
		return Add(x, y), true
	case token.SUB:
		return Sub(x, y), true
	case token.MUL:
		return Mul(x, y), true
	case token.QUO, token.REM:
		if !e.require(st, Not(Eq(y, BV(0, y.w))), "divzero@"+siteFn(ins), "div", site(ins)) {
			return nil, false
		}
		if signed {
			if op == token.QUO {
				return Bin(OSDiv, x, y), true
			}
			return Bin(OSRem, x, y), true
		}
		if op == token.QUO {
			return Bin(OUDiv, x, y), true
		}
		return Bin(OURem, x, y), true
	case token.AND:
		return Bin(OBAnd, x, y), true
	case token.OR:
		return Bin(OBOr, x, y), true
	case token.XOR:
		return Bin(OBXor, x, y), true
	case token.AND_NOT:
		return Bin(OBAnd, x, BNot(y)), true
	case token.SHL, token.SHR:
		// shift count: y may have a different width and signedness
		if isSigned(tb) {
			if !e.require(st, Sle(BV(0, y.w), y), "negshift@"+siteFn(ins), "shift", site(ins)) {
				return nil, false
			}
		}
		var big *Term // count >= width
		var cnt *Term
		if y.w > x.w {
			big = Ule(BV(uint64(x.w), y.w), y)
			cnt = Extract(y, int(x.w)-1, 0)
		} else {
			cnt = ZExt(y, x.w)
			big = Ule(BV(uint64(x.w), x.w), cnt)
		}
		if op == token.SHL {
			return Ite(big, BV(0, x.w), Bin(OShl, x, cnt)), true
		}
		if signed {
			return Ite(big, Bin(OAShr, x, BV(uint64(x.w)-1, x.w)), Bin(OAShr, x, cnt)), true
		}
		return Ite(big, BV(0, x.w), Bin(OLShr, x, cnt)), true
	case token.EQL:
		return Eq(x, y), true
	case token.NEQ:
		return Not(Eq(x, y)), true
	case token.LSS:
		if signed {
			return Slt(x, y), true
		}
		return Ult(x, y), true
	case token.LEQ:
		if signed {
			return Sle(x, y), true
		}
		return Ule(x, y), true
	case token.GTR:
		if signed {
			return Slt(y, x), true
		}
		return Ult(y, x), true
	case token.GEQ:
		if signed {
			return Sle(y, x), true
		}
		return Ule(y, x), true
	}
	unsupp("int op %s", op)
	return nil, false
}

func samePath(a, b []int) bool {
	if len(a) != len(b) {
		return false
	}
	for i := range a {
		if a[i] != b[i] {
			return false
		}
	}
	return true
}

func (e *Engine) valueEq(st *State, a, b Value) *Term {
	switch x := a.(type) {
	case nil:
		return e.valueEq(st, b, nil)
	case *Term:
		return Eq(x, asTerm(b))
	case *StrVal:
		return e.strEq(st, x, b.(*StrVal))
	case *PtrVal:
		y, _ := b.(*PtrVal)
		if y == nil {
			y = &PtrVal{}
		}
		if x.obj != y.obj || !samePath(x.path, y.path) {
			return tFalse
		}
		if x.fn != nil || y.fn != nil {
			return Bool(x.fn == y.fn)
		}
		if x.idx != nil && y.idx != nil {
			return Eq(x.idx, y.idx)
		}
		return Bool(x.idx == nil && y.idx == nil)
	case *IfaceVal:
		var y *IfaceVal
		switch bb := b.(type) {
		case *IfaceVal:
			y = bb
		case nil:
			y = &IfaceVal{}
		default:
			unsupp("interface compared with %T", b)
		}
		if x.t == nil || y.t == nil {
			return Bool(x.t == nil && y.t == nil)
		}
		if !types.Identical(x.t, y.t) {
			return tFalse
		}
		return e.valueEq(st, x.v, y.v)
	case *StructVal:
		y := b.(*StructVal)
		r := tTrue
		for i := range x.f {
			r = And(r, e.valueEq(st, x.f[i], y.f[i]))
		}
		return r
	case *ArrayVal:
		y := b.(*ArrayVal)
		r := tTrue
		for i := range x.e {
			r = And(r, e.valueEq(st, x.e[i], y.e[i]))
		}
		return r
	case *BytesVal:
		y := b.(*BytesVal)
		if !x.n.IsConst() {
			unsupp("array compare with symbolic length")
		}
		r := tTrue
		for i := uint64(0); i < x.n.k; i++ {
			r = And(r, Eq(memSelect(x.mem, BV(i, 64)), memSelect(y.mem, BV(i, 64))))
		}
		return r
	case *SliceVal:
		// only comparison with nil is legal
		return Bool(x.obj == 0)
	case *MapVal:
		y, _ := b.(*MapVal)
		if y == nil {
			return Bool(x.obj == 0)
		}
		return Bool(x.obj == y.obj)
	case *ChanVal:
		y, _ := b.(*ChanVal)
		if y == nil {
			return Bool(x.obj == 0)
		}
		return Bool(x.obj == y.obj)
	case *FuncVal:
		return Bool(x.nilf || (x.fn == nil && x.builtin == ""))
	case *LazyIface:
		y, ok := b.(*LazyIface)
		return Bool(ok && x == y)
	}
	unsupp("equality on %T", a)
	return nil
}

func (e *Engine) unop(st *State, f *Frame, x *ssa.UnOp) int {
	v := e.eval(st, f, x.X)
	switch x.Op {
	case token.MUL:
		p := v.(*PtrVal)
		if !e.nilCheck(st, p, x) {
			return stDone
		}
		f.regs[x] = st.load(p)
	case token.NOT:
		f.regs[x] = Not(asTerm(v))
	case token.SUB:
		t := asTerm(v)
		if isFloat(x.X.Type()) {
			f.regs[x] = UF(fmt.Sprintf("fneg%d", t.w), t.w, t)
		} else {
			f.regs[x] = Neg(t)
		}
	case token.XOR:
		f.regs[x] = BNot(asTerm(v))
	case token.ARROW:
		return e.doRecv(st, f, x, v.(*ChanVal))
	default:
		unsupp("unop %s", x.Op)
	}
	f.ip++
	return stCont
}

func (e *Engine) convert(st *State, v Value, from, to types.Type) Value {
	fu, tu := from.Underlying(), to.Underlying()
	switch x := v.(type) {
	case *Term:
		tb, ok := tu.(*types.Basic)
		if !ok {
			unsupp("convert scalar to %s", to)
		}
		if tb.Info()&types.IsString != 0 {
			// string(rune)
			if x.IsConst() && x.k < 0x80 {
				return &StrVal{conc: true, s: string(rune(x.k))}
			}
			unsupp("string(rune) of symbolic value")
		}
		ff, tf := isFloat(from), isFloat(to)
		w := typeWidth(to)
		switch {
		case ff && tf:
			if x.w == w {
				return x
			}
			return UF(fmt.Sprintf("fcvt%dto%d", x.w, w), w, x)
		case ff:
			return UF(fmt.Sprintf("f%dtoi%d", x.w, w), w, x)
		case tf:
			sg := "u"
			if isSigned(from) {
				sg = "s"
			}
			return UF(fmt.Sprintf("%si%dtof%d", sg, x.w, w), w, x)
		}
		return Resize(x, w, isSigned(from))
	case *StrVal:
		if _, ok := tu.(*types.Slice); ok {
			// []byte(s)
			m, off, n := e.strBytes(x)
			id := st.newObj(&BytesVal{mem: memCopy(memZero, c64(0), n, m, off), n: n}, nil, "bytes-of-string")
			return &SliceVal{obj: id, off: c64(0), len: n, cap: n}
		}
		return x
	case *SliceVal:
		if tb, ok := tu.(*types.Basic); ok && tb.Info()&types.IsString != 0 {
			if x.obj == 0 {
				return &StrVal{conc: true}
			}
			b := st.bytesAt(x.obj, x.path)
			return e.mkStr(b.mem, x.off, x.len)
		}
		return x
	case *PtrVal:
		return x
	}
	_ = fu
	unsupp("convert %T from %s to %s", v, from, to)
	return nil
}

// ---------- strings ----------

func (e *Engine) mkStr(m *Mem, off, n *Term) *StrVal {
	if n.IsConst() && n.k <= 256 {
		bs := make([]byte, n.k)
		all := true
		for i := uint64(0); i < n.k; i++ {
			t := memSelect(m, Add(off, BV(i, 64)))
			if !t.IsConst() {
				all = false
				break
			}
			bs[i] = byte(t.k)
		}
		if all {
			return &StrVal{conc: true, s: string(bs)}
		}
	}
	return &StrVal{mem: m, off: off, n: n}
}

func (e *Engine) strBytes(s *StrVal) (*Mem, *Term, *Term) {
	if s.conc {
		return constMem([]byte(s.s)), c64(0), c64(int64(len(s.s)))
	}
	return s.mem, s.off, s.n
}

func strLen(s *StrVal) *Term {
	if s.conc {
		return c64(int64(len(s.s)))
	}
	return s.n
}

// opaqueStr: the result of a stubbed formatting call: arbitrary bytes, length 0..4096 (stated stub
// contract: formatted messages are short).
func (e *Engine) opaqueStr(st *State, hint string) *StrVal {
	e.nondetSeq++
	n := Var(fmt.Sprintf("oslen%d", e.nondetSeq), 64)
	st.assume(And(Sle(c64(0), n), Sle(n, c64(4096))))
	return &StrVal{mem: newBaseMem("ostr_" + hint), off: c64(0), n: n}
}

func (e *Engine) strConcat(st *State, a, b *StrVal) *StrVal {
	if a.conc && b.conc {
		return &StrVal{conc: true, s: a.s + b.s}
	}
	if a.conc && a.s == "" {
		return b
	}
	if b.conc && b.s == "" {
		return a
	}
	m1, o1, n1 := e.strBytes(a)
	m2, o2, n2 := e.strBytes(b)
	m := memCopy(memZero, c64(0), n1, m1, o1)
	m = memCopy(m, n1, n2, m2, o2)
	return &StrVal{mem: m, off: c64(0), n: Add(n1, n2)}
}

func (e *Engine) strEq(st *State, a, b *StrVal) *Term {
	if a.conc && b.conc {
		return Bool(a.s == b.s)
	}
	n1, n2 := strLen(a), strLen(b)
	le := Eq(n1, n2)
	if le.IsFalse() {
		return tFalse
	}
	// compare byte-wise when one side has a concrete length
	var n uint64
	switch {
	case n1.IsConst():
		n = n1.k
	case n2.IsConst():
		n = n2.k
	default:
		unsupp("comparison of two strings of symbolic length")
	}
	m1, o1, _ := e.strBytes(a)
	m2, o2, _ := e.strBytes(b)
	r := le
	for i := uint64(0); i < n; i++ {
		r = And(r, Eq(memSelect(m1, Add(o1, BV(i, 64))), memSelect(m2, Add(o2, BV(i, 64)))))
	}
	return r
}

// ---------- slices, arrays ----------

func (e *Engine) makeSlice(st *State, f *Frame, x *ssa.MakeSlice) int {
	ln := asTerm(e.eval(st, f, x.Len))
	cp := asTerm(e.eval(st, f, x.Cap))
	ln = Resize(ln, 64, isSigned(x.Len.Type()))
	cp = Resize(cp, 64, isSigned(x.Cap.Type()))
	elem := x.Type().Underlying().(*types.Slice).Elem()
	const maxAlloc = 1 << 47
	ok := And(And(Sle(c64(0), ln), Sle(ln, cp)), Sle(cp, c64(maxAlloc)))
	if !e.require(st, ok, "makeslice@"+siteFn(x), "bounds", site(x)) {
		return stDone
	}
	if isByte(elem) {
		id := st.newObj(&BytesVal{mem: memZero, n: cp}, nil, "make([]byte)")
		st.allocSum = Add(st.allocSum, cp)
		st.allocMax = Ite(Ult(st.allocMax, cp), cp, st.allocMax)
		st.nAllocs++
		f.regs[x] = &SliceVal{obj: id, off: c64(0), len: ln, cap: cp}
		f.ip++
		return stCont
	}
	n, okc := e.concretize(st, cp, "makeslice-cap")
	if !okc {
		return e.forkedOrDead(st)
	}
	l, okc := e.concretize(st, ln, "makeslice-len")
	if !okc {
		return e.forkedOrDead(st)
	}
	if n > 1<<16 {
		unsupp("make of %d non-byte elements", n)
	}
	arr := &ArrayVal{e: make([]Value, n)}
	z := zeroValue(elem)
	for i := range arr.e {
		arr.e[i] = z
	}
	esz := e.sizeof(elem)
	st.allocSum = Add(st.allocSum, c64(int64(n)*esz))
	id := st.newObj(arr, nil, "make([]T)")
	f.regs[x] = &SliceVal{obj: id, off: c64(0), len: c64(int64(l)), cap: c64(int64(n))}
	f.ip++
	return stCont
}

var stdSizes = types.SizesFor("gc", "amd64")

func (e *Engine) sizeof(t types.Type) int64 { return stdSizes.Sizeof(t) }

// forkedOrDead: the state was replaced by forks (which re-execute the instruction) or is dead.
func (e *Engine) forkedOrDead(st *State) int {
	if st.dead {
		return stDone
	}
	return stCont // the current state itself continues with the first value (known[] is set): re-execute
}

func (e *Engine) sliceOp(st *State, f *Frame, x *ssa.Slice) int {
	base := e.eval(st, f, x.X)
	get := func(v ssa.Value) *Term {
		if v == nil {
			return nil
		}
		return Resize(asTerm(e.eval(st, f, v)), 64, isSigned(v.Type()))
	}
	lo, hi, mx := get(x.Low), get(x.High), get(x.Max)
	id := "bounds@" + siteFn(x)
	switch b := base.(type) {
	case *StrVal:
		m, off, n := e.strBytes(b)
		if lo == nil {
			lo = c64(0)
		}
		if hi == nil {
			hi = n
		}
		ok := And(And(Sle(c64(0), lo), Sle(lo, hi)), Sle(hi, n))
		if !e.require(st, ok, id, "bounds", site(x)) {
			return stDone
		}
		if b.conc && lo.IsConst() && hi.IsConst() {
			f.regs[x] = &StrVal{conc: true, s: b.s[lo.k:hi.k]}
		} else {
			f.regs[x] = e.mkStr(m, Add(off, lo), Sub(hi, lo))
		}
	case *SliceVal:
		if lo == nil {
			lo = c64(0)
		}
		if hi == nil {
			hi = b.len
			if b.obj == 0 {
				hi = c64(0)
			}
		}
		cp := b.cap
		if b.obj == 0 {
			cp = c64(0)
		}
		ok := And(Sle(c64(0), lo), Sle(lo, hi))
		if mx != nil {
			ok = And(ok, And(Sle(hi, mx), Sle(mx, cp)))
		} else {
			ok = And(ok, Sle(hi, cp))
			mx = cp
		}
		if !e.require(st, ok, id, "bounds", site(x)) {
			return stDone
		}
		if b.obj == 0 {
			f.regs[x] = &SliceVal{}
		} else {
			f.regs[x] = &SliceVal{obj: b.obj, path: b.path, off: Add(b.off, lo), len: Sub(hi, lo), cap: Sub(mx, lo)}
		}
	case *PtrVal:
		// pointer to array
		if !e.nilCheck(st, b, x) {
			return stDone
		}
		arr := getAt(st.heap[b.obj].val, b.path)
		var n *Term
		switch a := arr.(type) {
		case *BytesVal:
			n = a.n
		case *ArrayVal:
			n = c64(int64(len(a.e)))
		default:
			unsupp("slice of pointer to %T", arr)
		}
		if lo == nil {
			lo = c64(0)
		}
		if hi == nil {
			hi = n
		}
		ok := And(Sle(c64(0), lo), Sle(lo, hi))
		if mx != nil {
			ok = And(ok, And(Sle(hi, mx), Sle(mx, n)))
		} else {
			ok = And(ok, Sle(hi, n))
			mx = n
		}
		if !e.require(st, ok, id, "bounds", site(x)) {
			return stDone
		}
		f.regs[x] = &SliceVal{obj: b.obj, path: b.path, off: lo, len: Sub(hi, lo), cap: Sub(mx, lo)}
	default:
		unsupp("slice of %T", base)
	}
	f.ip++
	return stCont
}

func (e *Engine) indexAddr(st *State, f *Frame, x *ssa.IndexAddr) int {
	base := e.eval(st, f, x.X)
	idx := Resize(asTerm(e.eval(st, f, x.Index)), 64, isSigned(x.Index.Type()))
	id := "bounds@" + siteFn(x)
	var obj int
	var path []int
	var off, ln *Term
	switch b := base.(type) {
	case *SliceVal:
		if b.obj == 0 {
			// index of nil slice always out of range
			e.require(st, tFalse, id, "bounds", site(x))
			return stDone
		}
		obj, path, off, ln = b.obj, b.path, b.off, b.len
	case *PtrVal:
		if !e.nilCheck(st, b, x) {
			return stDone
		}
		obj, path, off = b.obj, b.path, c64(0)
		switch a := getAt(st.heap[obj].val, path).(type) {
		case *BytesVal:
			ln = a.n
		case *ArrayVal:
			ln = c64(int64(len(a.e)))
		default:
			unsupp("indexaddr into %T", a)
		}
	default:
		unsupp("indexaddr on %T", base)
	}
	if !e.require(st, Ult(idx, ln), id, "bounds", site(x)) {
		return stDone
	}
	switch getAt(st.heap[obj].val, path).(type) {
	case *BytesVal:
		f.regs[x] = &PtrVal{obj: obj, path: path, idx: Add(off, idx)}
	default:
		k, ok := e.concretize(st, Add(off, idx), "index")
		if !ok {
			return e.forkedOrDead(st)
		}
		f.regs[x] = &PtrVal{obj: obj, path: appendPath(path, int(k))}
	}
	f.ip++
	return stCont
}

func (e *Engine) index(st *State, f *Frame, x *ssa.Index) int {
	base := e.eval(st, f, x.X)
	idx := Resize(asTerm(e.eval(st, f, x.Index)), 64, isSigned(x.Index.Type()))
	id := "bounds@" + siteFn(x)
	switch b := base.(type) {
	case *StrVal:
		m, off, n := e.strBytes(b)
		if !e.require(st, Ult(idx, n), id, "bounds", site(x)) {
			return stDone
		}
		f.regs[x] = memSelect(m, Add(off, idx))
	case *BytesVal:
		if !e.require(st, Ult(idx, b.n), id, "bounds", site(x)) {
			return stDone
		}
		f.regs[x] = memSelect(b.mem, idx)
	case *ArrayVal:
		if !e.require(st, Ult(idx, c64(int64(len(b.e)))), id, "bounds", site(x)) {
			return stDone
		}
		k, ok := e.concretize(st, idx, "index")
		if !ok {
			return e.forkedOrDead(st)
		}
		f.regs[x] = b.e[k]
	default:
		unsupp("index on %T", base)
	}
	f.ip++
	return stCont
}

// ---------- type assertions ----------

func (e *Engine) implements(t types.Type, iface *types.Interface) bool {
	return types.Implements(t, iface)
}

func (e *Engine) typeAssert(st *State, f *Frame, x *ssa.TypeAssert) int {
	v := e.eval(st, f, x.X)
	if lz, ok := v.(*IfaceVal); ok {
		if l, ok := lz.v.(*LazyIface); ok && lz.t == nil {
			_ = l
		}
	}
	iv, ok := v.(*IfaceVal)
	if !ok {
		unsupp("type assert on %T", v)
	}
	if l, isLazy := iv.v.(*LazyIface); isLazy {
		return e.lazyTypeAssert(st, f, x, iv, l)
	}
	var okb bool
	var res Value
	if iv.t != nil {
		if it, isIface := x.AssertedType.Underlying().(*types.Interface); isIface {
			okb = e.implements(iv.t, it)
			if okb {
				res = iv
			}
		} else {
			okb = types.Identical(iv.t, x.AssertedType)
			if okb {
				res = iv.v
			}
		}
	}
	if x.CommaOk {
		if !okb {
			res = zeroValue(x.AssertedType)
		}
		f.regs[x] = &TupleVal{e: []Value{res, Bool(okb)}}
		f.ip++
		return stCont
	}
	if !okb {
		st.panic_ = &PanicInfo{kind: "typeassert", site: site(x), msg: "interface conversion failed"}
		return stCont
	}
	f.regs[x] = res
	f.ip++
	return stCont
}

// ---------- maps ----------

func (e *Engine) keyEq(st *State, a, b Value) *Term { return e.valueEq(st, a, b) }

// mapFind looks a key up. It may need to case-split on symbolic key equality; in that case it
// returns retry=true after scheduling forks (the instruction re-executes with more knowledge).
func (e *Engine) mapFind(st *State, mc *MapContent, key Value, ins ssa.Instruction) (idx int, status int) {
	for i, en := range mc.entries {
		c := e.keyEq(st, en.k, key)
		if c.IsTrue() {
			return i, stCont
		}
		if c.IsFalse() {
			continue
		}
		taken, ok := e.branch(st, c, ins, fmt.Sprintf("mapkey#%d", i))
		if !ok {
			return -1, stDone
		}
		if taken {
			return i, stCont
		}
	}
	return -1, stCont
}

func (e *Engine) lookup(st *State, f *Frame, x *ssa.Lookup) int {
	m := e.eval(st, f, x.X)
	key := e.eval(st, f, x.Index)
	mv, ok := m.(*MapVal)
	if !ok {
		unsupp("lookup on %T", m)
	}
	elemT := x.X.Type().Underlying().(*types.Map).Elem()
	var res Value
	found := false
	if mv.obj != 0 {
		mc := st.heap[mv.obj].val.(*MapContent)
		if mc.lazy {
			return e.lazyMapLookup(st, f, x, mv, mc, key, elemT)
		}
		i, r := e.mapFind(st, mc, key, x)
		if r != stCont {
			return r
		}
		if i >= 0 {
			// re-read: branch may have cloned, but the content is the same in this state
			res = mc.entries[i].v
			found = true
		}
	}
	if !found {
		res = zeroValue(elemT)
	}
	if x.CommaOk {
		f.regs[x] = &TupleVal{e: []Value{res, Bool(found)}}
	} else {
		f.regs[x] = res
	}
	f.ip++
	return stCont
}

func (e *Engine) doMapUpdate(st *State, f *Frame, x *ssa.MapUpdate) int {
	mv := e.eval(st, f, x.Map).(*MapVal)
	key := e.eval(st, f, x.Key)
	val := e.eval(st, f, x.Value)
	if mv.obj == 0 {
		if st.open != nil {
			e.openObligation(st, "nilmap@"+siteFn(x), "assignment to entry in nil map", site(x))
			return stDone
		}
		e.require(st, tFalse, "nilmap@"+siteFn(x), "nil", site(x))
		return stDone
	}
	mc := st.heap[mv.obj].val.(*MapContent)
	i, r := e.mapFind(st, mc, key, x)
	if r != stCont {
		return r
	}
	nm := &MapContent{entries: append([]MapEntry(nil), mc.entries...), lazy: mc.lazy}
	if i >= 0 {
		nm.entries[i] = MapEntry{key, val}
	} else {
		nm.entries = append(nm.entries, MapEntry{key, val})
	}
	o := *st.heap[mv.obj]
	o.val = nm
	st.heap[mv.obj] = &o
	f.ip++
	return stCont
}

type mapIter struct {
	entries []MapEntry
	pos     int
	str     *StrVal
}

func (e *Engine) rangeInit(st *State, f *Frame, x *ssa.Range) int {
	v := e.eval(st, f, x.X)
	switch m := v.(type) {
	case *MapVal:
		it := &mapIter{}
		if m.obj != 0 {
			mc := st.heap[m.obj].val.(*MapContent)
			if mc.lazy {
				e.lazyMapRange(st, m, mc)
				mc = st.heap[m.obj].val.(*MapContent)
			}
			it.entries = append(it.entries, mc.entries...)
		}
		f.regs[x] = it
	case *StrVal:
		if !m.conc {
			unsupp("range over symbolic string")
		}
		f.regs[x] = &mapIter{str: m}
	default:
		unsupp("range over %T", v)
	}
	f.ip++
	return stCont
}

func (e *Engine) rangeNext(st *State, f *Frame, x *ssa.Next) int {
	it := e.eval(st, f, x.Iter).(*mapIter)
	tt := x.Type().(*types.Tuple)
	if it.str != nil {
		s := it.str.s
		if it.pos >= len(s) {
			f.regs[x] = &TupleVal{e: []Value{tFalse, c64(0), BV(0, 32)}}
		} else {
			// decode one rune
			r, sz := decodeRune(s[it.pos:])
			f.regs[x] = &TupleVal{e: []Value{tTrue, c64(int64(it.pos)), BV(uint64(r), 32)}}
			f.regs[x.Iter] = &mapIter{str: it.str, pos: it.pos + sz}
		}
		f.ip++
		return stCont
	}
	if it.pos >= len(it.entries) {
		f.regs[x] = &TupleVal{e: []Value{tFalse, zeroOrNil(tt.At(1).Type()), zeroOrNil(tt.At(2).Type())}}
	} else {
		en := it.entries[it.pos]
		f.regs[x] = &TupleVal{e: []Value{tTrue, en.k, en.v}}
		f.regs[x.Iter] = &mapIter{entries: it.entries, pos: it.pos + 1}
	}
	f.ip++
	return stCont
}

func zeroOrNil(t types.Type) Value {
	if b, ok := t.(*types.Basic); ok && b.Kind() == types.Invalid {
		return nil
	}
	return zeroValue(t)
}

func decodeRune(s string) (rune, int) {
	for i, r := range s {
		_ = i
		n := len(string(r))
		if r == 0xFFFD {
			n = 1
		}
		return r, n
	}
	return 0, 0
}

// ---------- builtins ----------

func (e *Engine) doBuiltin(st *State, f *Frame, name string, args []Value, ins ssa.Instruction, ret func(Value) int) int {
	switch name {
	case "len":
		switch a := args[0].(type) {
		case *SliceVal:
			if a.obj == 0 {
				return ret(c64(0))
			}
			return ret(a.len)
		case *StrVal:
			return ret(strLen(a))
		case *MapVal:
			if a.obj == 0 {
				return ret(c64(0))
			}
			mc := st.heap[a.obj].val.(*MapContent)
			if mc.lazy {
				return ret(e.lazyMapLen(st, a))
			}
			return ret(c64(int64(len(mc.entries))))
		case *ChanVal:
			return ret(c64(0))
		case *PtrVal:
			switch arr := getAt(st.heap[a.obj].val, a.path).(type) {
			case *BytesVal:
				return ret(arr.n)
			case *ArrayVal:
				return ret(c64(int64(len(arr.e))))
			}
		case *BytesVal:
			return ret(a.n)
		case *ArrayVal:
			return ret(c64(int64(len(a.e))))
		}
		unsupp("len of %T", args[0])
	case "cap":
		switch a := args[0].(type) {
		case *SliceVal:
			if a.obj == 0 {
				return ret(c64(0))
			}
			return ret(a.cap)
		case *ChanVal:
			return ret(c64(0))
		}
		unsupp("cap of %T", args[0])
	case "append":
		return e.doAppend(st, f, args, ins, ret)
	case "copy":
		return e.doCopy(st, f, args, ins, ret)
	case "delete":
		mv := args[0].(*MapVal)
		if mv.obj == 0 {
			return ret(nil)
		}
		mc := st.heap[mv.obj].val.(*MapContent)
		i, r := e.mapFind(st, mc, args[1], ins)
		if r != stCont {
			return r
		}
		if i >= 0 {
			nm := &MapContent{lazy: mc.lazy}
			nm.entries = append(nm.entries, mc.entries[:i]...)
			nm.entries = append(nm.entries, mc.entries[i+1:]...)
			o := *st.heap[mv.obj]
			o.val = nm
			st.heap[mv.obj] = &o
		} else if mc.lazy {
			e.lazyMapDelete(st, mv, args[1])
		}
		return ret(nil)
	case "close":
		return e.doClose(st, f, args[0].(*ChanVal), ins, ret)
	case "recover":
		// valid only when called directly by a deferred function whose caller is panicking
		if f.isDeferd && len(st.frames) >= 2 {
			c := st.frames[len(st.frames)-2]
			if c.panicking != nil {
				p := c.panicking
				c.panicking = nil
				c.recovered = true
				v := p.val
				if v == nil {
					v = &IfaceVal{t: types.Typ[types.String], v: &StrVal{conc: true, s: p.msg}}
				}
				return ret(v)
			}
		}
		return ret(&IfaceVal{})
	case "print", "println":
		return ret(nil)
	case "min", "max":
		a, b := asTerm(args[0]), asTerm(args[1])
		var c *Term
		sg := true
		if call, ok := ins.(*ssa.Call); ok {
			sg = isSigned(call.Type())
		}
		if sg {
			c = Slt(a, b)
		} else {
			c = Ult(a, b)
		}
		if name == "min" {
			return ret(Ite(c, a, b))
		}
		return ret(Ite(c, b, a))
	case "ssa:wrapnilchk":
		p := args[0].(*PtrVal)
		if !e.nilCheck(st, p, ins) {
			return stDone
		}
		return ret(p)
	}
	unsupp("builtin %s", name)
	return stDone
}

func (e *Engine) doAppend(st *State, f *Frame, args []Value, ins ssa.Instruction, ret func(Value) int) int {
	dst := args[0].(*SliceVal)
	var elemIsByte bool
	if call, ok := ins.(ssa.CallInstruction); ok {
		if sl, ok := call.Common().Args[0].Type().Underlying().(*types.Slice); ok {
			elemIsByte = isByte(sl.Elem())
		}
	}
	if elemIsByte {
		var sm *Mem
		var soff, sn *Term
		switch s := args[1].(type) {
		case *SliceVal:
			if s.obj == 0 {
				return ret(dst)
			}
			sm, soff, sn = st.bytesAt(s.obj, s.path).mem, s.off, s.len
		case *StrVal:
			sm, soff, sn = e.strBytes(s)
		default:
			unsupp("append source %T", args[1])
		}
		if sn.IsConst() && sn.k == 0 {
			return ret(dst)
		}
		dlen, dcap := c64(0), c64(0)
		if dst.obj != 0 {
			dlen, dcap = dst.len, dst.cap
		}
		need := Add(dlen, sn)
		fits := Sle(need, dcap)
		if dst.obj == 0 {
			fits = tFalse
		}
		taken, ok := e.branch(st, fits, ins, "append-fits")
		if !ok {
			return stDone
		}
		if taken {
			b := st.bytesAt(dst.obj, dst.path)
			nm := memCopy(b.mem, Add(dst.off, dlen), sn, sm, soff)
			st.setBytesAt(dst.obj, dst.path, &BytesVal{mem: nm, n: b.n})
			return ret(&SliceVal{obj: dst.obj, path: dst.path, off: dst.off, len: need, cap: dst.cap})
		}
		// reallocate: exactly the needed capacity when sizes are symbolic, amortised doubling when
		// they are concrete (both are admissible runtime behaviours)
		newcap := need
		if need.IsConst() && dcap.IsConst() {
			nc := 2 * dcap.k
			if nc < need.k {
				nc = need.k
			}
			if nc < 8 {
				nc = 8
			}
			newcap = c64(int64(nc))
		}
		m := memZero
		if dst.obj != 0 {
			b := st.bytesAt(dst.obj, dst.path)
			m = memCopy(m, c64(0), dlen, b.mem, dst.off)
		}
		m = memCopy(m, dlen, sn, sm, soff)
		id := st.newObj(&BytesVal{mem: m, n: newcap}, nil, "append")
		st.allocSum = Add(st.allocSum, newcap)
		st.allocMax = Ite(Ult(st.allocMax, newcap), newcap, st.allocMax)
		return ret(&SliceVal{obj: id, off: c64(0), len: need, cap: newcap})
	}
	// generic element slices: concrete lengths
	src, ok := args[1].(*SliceVal)
	if !ok {
		unsupp("append source %T", args[1])
	}
	if src.obj == 0 {
		return ret(dst)
	}
	sn, ok1 := e.concretize(st, src.len, "append-srclen")
	if !ok1 {
		return e.forkedOrDead(st)
	}
	if sn == 0 {
		return ret(dst)
	}
	soff, ok1 := e.concretize(st, src.off, "append-srcoff")
	if !ok1 {
		return e.forkedOrDead(st)
	}
	sarr := getAt(st.heap[src.obj].val, src.path).(*ArrayVal)
	var dl, dc, doff uint64
	if dst.obj != 0 {
		var ok2 bool
		if dl, ok2 = e.concretize(st, dst.len, "append-len"); !ok2 {
			return e.forkedOrDead(st)
		}
		if dc, ok2 = e.concretize(st, dst.cap, "append-cap"); !ok2 {
			return e.forkedOrDead(st)
		}
		if doff, ok2 = e.concretize(st, dst.off, "append-off"); !ok2 {
			return e.forkedOrDead(st)
		}
	}
	if dst.obj != 0 && dl+sn <= dc {
		darr := getAt(st.heap[dst.obj].val, dst.path).(*ArrayVal)
		ne := append([]Value(nil), darr.e...)
		for i := uint64(0); i < sn; i++ {
			ne[doff+dl+i] = sarr.e[soff+i]
		}
		o := *st.heap[dst.obj]
		o.val = setAt(o.val, dst.path, &ArrayVal{ne})
		st.heap[dst.obj] = &o
		return ret(&SliceVal{obj: dst.obj, path: dst.path, off: dst.off, len: c64(int64(dl + sn)), cap: dst.cap})
	}
	ne := make([]Value, 0, dl+sn)
	if dst.obj != 0 {
		darr := getAt(st.heap[dst.obj].val, dst.path).(*ArrayVal)
		ne = append(ne, darr.e[doff:doff+dl]...)
	}
	ne = append(ne, sarr.e[soff:soff+sn]...)
	id := st.newObj(&ArrayVal{ne}, nil, "append")
	n := c64(int64(len(ne)))
	return ret(&SliceVal{obj: id, off: c64(0), len: n, cap: n})
}

func (e *Engine) doCopy(st *State, f *Frame, args []Value, ins ssa.Instruction, ret func(Value) int) int {
	dst := args[0].(*SliceVal)
	var sm *Mem
	var soff, sn *Term
	switch s := args[1].(type) {
	case *SliceVal:
		if s.obj == 0 {
			return ret(c64(0))
		}
		if _, isBytes := getAt(st.heap[s.obj].val, s.path).(*BytesVal); !isBytes {
			return e.copyGeneric(st, dst, s, ret)
		}
		sm, soff, sn = st.bytesAt(s.obj, s.path).mem, s.off, s.len
	case *StrVal:
		sm, soff, sn = e.strBytes(s)
	default:
		unsupp("copy source %T", args[1])
	}
	if dst.obj == 0 {
		return ret(c64(0))
	}
	n := Ite(Slt(dst.len, sn), dst.len, sn)
	b := st.bytesAt(dst.obj, dst.path)
	nm := memCopy(b.mem, dst.off, n, sm, soff)
	st.setBytesAt(dst.obj, dst.path, &BytesVal{mem: nm, n: b.n})
	return ret(n)
}

func (e *Engine) copyGeneric(st *State, dst, src *SliceVal, ret func(Value) int) int {
	if dst.obj == 0 {
		return ret(c64(0))
	}
	dl, ok := e.concretize(st, dst.len, "copy-dlen")
	if !ok {
		return e.forkedOrDead(st)
	}
	sl, ok := e.concretize(st, src.len, "copy-slen")
	if !ok {
		return e.forkedOrDead(st)
	}
	do, ok := e.concretize(st, dst.off, "copy-doff")
	if !ok {
		return e.forkedOrDead(st)
	}
	so, ok := e.concretize(st, src.off, "copy-soff")
	if !ok {
		return e.forkedOrDead(st)
	}
	n := dl
	if sl < n {
		n = sl
	}
	sarr := getAt(st.heap[src.obj].val, src.path).(*ArrayVal)
	darr := getAt(st.heap[dst.obj].val, dst.path).(*ArrayVal)
	ne := append([]Value(nil), darr.e...)
	for i := uint64(0); i < n; i++ {
		ne[do+i] = sarr.e[so+i]
	}
	o := *st.heap[dst.obj]
	o.val = setAt(o.val, dst.path, &ArrayVal{ne})
	st.heap[dst.obj] = &o
	return ret(c64(int64(n)))
}

package main

// Intrinsics: harness primitives (v*), sync/atomic, encoding/binary, formatting stubs.

import (
	"fmt"
	"go/types"
	"strings"

	"golang.org/x/tools/go/ssa"
)

func (e *Engine) nondet(st *State, kind string, w uint8) *Term {
	e.nondetSeq++
	t := Var(fmt.Sprintf("nd%d_%s", e.nondetSeq, kind), w)
	st.nondets = append(st.nondets, NondetRec{Kind: kind, term: t})
	return t
}

func strArg(v Value) string {
	s, ok := v.(*StrVal)
	if !ok || !s.conc {
		unsupp("intrinsic needs a constant string argument")
	}
	return s.s
}

func (e *Engine) lockKey(st *State, p *PtrVal) string {
	return fmt.Sprintf("%d%s", p.obj, pathKey(p.path))
}

func (e *Engine) lockName(st *State, p *PtrVal) string {
	o := st.heap[p.obj]
	name := ""
	if o != nil {
		name = o.name
		if o.typ != nil {
			name = typeFieldPath(o.typ, p.path)
		}
	}
	return name
}

func typeFieldPath(t types.Type, path []int) string {
	s := types.TypeString(t, func(p *types.Package) string { return "" })
	for _, i := range path {
		switch u := t.Underlying().(type) {
		case *types.Struct:
			if i < u.NumFields() {
				s += "." + u.Field(i).Name()
				t = u.Field(i).Type()
				continue
			}
		case *types.Array:
			s += fmt.Sprintf("[%d]", i)
			t = u.Elem()
			continue
		}
		s += fmt.Sprintf("/%d", i)
	}
	return s
}

// intrinsic returns handled=true if fn was executed as an intrinsic.
func (e *Engine) intrinsic(st *State, f *Frame, fn *ssa.Function, args []Value, ins ssa.Instruction, ret func(Value) int, resultTo ssa.Value, deferred bool) (int, bool) {
	name := fn.Name()
	full := fn.String()
	if fn.Blocks == nil && strings.HasPrefix(name, "v") && len(name) > 1 && name[1] >= 'A' && name[1] <= 'Z' {
		return e.harnessIntrinsic(st, f, fn, name, args, ins, ret, resultTo), true
	}
	switch full {
	// ---- sync ----
	case "(*sync.Mutex).Lock", "(*sync.RWMutex).Lock", "(*sync.RWMutex).RLock":
		p := args[0].(*PtrVal)
		k := e.lockKey(st, p)
		e.parYield(st, "Lock")
		if st.locks[k] > 0 {
			if st.heldByOther(k) {
				// held by another live thread: wait for it
				return e.blocked(st, "mutex held by another goroutine", ins), true
			}
			nm := e.lockName(st, p)
			if st.open != nil {
				e.openObligation(st, "self-deadlock:"+nm, "Lock of a mutex already held by this goroutine ("+nm+")", site(ins))
			} else {
				e.require(st, tFalse, "self-deadlock@"+siteFn(ins), "lock", site(ins))
			}
			return stDone, true
		}
		st.locks[k]++
		st.setLockOwner(k, st.tid())
		if st.par != nil {
			e.parProgress(st)
		}
		st.events = append(st.events, Event{name: "lock", s: "lock " + e.lockName(st, p)})
		return ret(nil), true
	case "(*sync.Mutex).Unlock", "(*sync.RWMutex).Unlock", "(*sync.RWMutex).RUnlock":
		p := args[0].(*PtrVal)
		k := e.lockKey(st, p)
		if st.locks[k] == 0 {
			nm := e.lockName(st, p)
			if st.open != nil {
				if !e.openUnlockUnheld(st, p, nm, ins) {
					return stDone, true
				}
				return ret(nil), true
			}
			e.require(st, tFalse, "unlock-unheld@"+siteFn(ins), "lock", site(ins))
			return stDone, true
		}
		st.locks[k]--
		e.parProgress(st)
		st.events = append(st.events, Event{name: "unlock", s: "unlock " + e.lockName(st, p)})
		return ret(nil), true
	case "(*sync.Mutex).TryLock":
		p := args[0].(*PtrVal)
		k := e.lockKey(st, p)
		if st.locks[k] > 0 {
			return ret(tFalse), true
		}
		st.locks[k]++
		st.setLockOwner(k, st.tid())
		return ret(tTrue), true
	case "(*sync.Once).Do":
		p := args[0].(*PtrVal)
		k := e.lockKey(st, p)
		if st.once[k] {
			return ret(nil), true
		}
		st.once[k] = true
		fv := args[1].(*FuncVal)
		if fv.nilf {
			return ret(nil), true
		}
		// call f(); result discarded. Use the normal call path with no result register.
		if deferred {
			unsupp("deferred Once.Do")
		}
		r := e.invoke(st, fv, nil, nil, ins, false)
		return r, true
	case "(*sync.WaitGroup).Add":
		p := args[0].(*PtrVal)
		k := "wg:" + e.lockKey(st, p)
		cur := st.ghost[k]
		if cur == nil {
			cur = c64(0)
		}
		st.ghost[k] = Add(cur, Resize(asTerm(args[1]), 64, true))
		st.events = append(st.events, Event{name: "wg.Add", s: "wg.Add " + e.lockName(st, p)})
		return ret(nil), true
	case "(*sync.WaitGroup).Done":
		p := args[0].(*PtrVal)
		k := "wg:" + e.lockKey(st, p)
		cur := st.ghost[k]
		if cur == nil {
			cur = c64(0)
		}
		st.ghost[k] = Sub(cur, c64(1))
		e.parProgress(st)
		st.events = append(st.events, Event{name: "wg.Done", s: "wg.Done " + e.lockName(st, p)})
		return ret(nil), true
	case "(*sync.WaitGroup).Wait":
		if st.open != nil {
			e.openWaitPoint(st, "WaitGroup.Wait", ins)
			return ret(nil), true
		}
		{
			e.parYield(st, "wg.Wait")
			p := args[0].(*PtrVal)
			cur := st.ghost["wg:"+e.lockKey(st, p)]
			if cur != nil {
				zero, ok := e.branch(st, Eq(cur, c64(0)), ins, "wg-zero")
				if !ok {
					return stDone, true
				}
				if !zero {
					return e.blocked(st, "WaitGroup.Wait with outstanding tasks", ins), true
				}
			}
		}
		return ret(nil), true
	case "(*sync.Cond).Wait", "(*sync.Cond).Signal", "(*sync.Cond).Broadcast":
		return ret(nil), true
	// ---- atomic ----
	case "sync/atomic.LoadUint64", "sync/atomic.LoadUint32", "sync/atomic.LoadInt32", "sync/atomic.LoadInt64", "sync/atomic.LoadPointer", "sync/atomic.LoadUintptr":
		p := args[0].(*PtrVal)
		if !e.nilCheck(st, p, ins) {
			return stDone, true
		}
		if r, handled := e.parYield(st, "atomic.Load"); handled {
			return r, true
		}
		return ret(st.load(p)), true
	case "sync/atomic.StoreUint64", "sync/atomic.StoreUint32", "sync/atomic.StoreInt32", "sync/atomic.StoreInt64":
		p := args[0].(*PtrVal)
		if !e.nilCheck(st, p, ins) {
			return stDone, true
		}
		if r, handled := e.parYield(st, "atomic.Store"); handled {
			return r, true
		}
		st.store(p, args[1])
		return ret(nil), true
	case "sync/atomic.AddUint64", "sync/atomic.AddUint32", "sync/atomic.AddInt32", "sync/atomic.AddInt64":
		p := args[0].(*PtrVal)
		if !e.nilCheck(st, p, ins) {
			return stDone, true
		}
		if r, handled := e.parYield(st, "atomic.Add"); handled {
			return r, true
		}
		nv := Add(asTerm(st.load(p)), asTerm(args[1]))
		st.store(p, nv)
		return ret(nv), true
	case "sync/atomic.CompareAndSwapUint64", "sync/atomic.CompareAndSwapUint32", "sync/atomic.CompareAndSwapInt32", "sync/atomic.CompareAndSwapInt64":
		p := args[0].(*PtrVal)
		if !e.nilCheck(st, p, ins) {
			return stDone, true
		}
		if r, handled := e.parYield(st, "atomic.CAS"); handled {
			return r, true
		}
		cur := asTerm(st.load(p))
		eq := Eq(cur, asTerm(args[1]))
		st.store(p, Ite(eq, asTerm(args[2]), cur))
		return ret(eq), true
	case "(*sync/atomic.Value).Load":
		p := args[0].(*PtrVal)
		return ret(st.load(&PtrVal{obj: p.obj, path: appendPath(p.path, 0)})), true
	case "(*sync/atomic.Value).Store":
		p := args[0].(*PtrVal)
		st.store(&PtrVal{obj: p.obj, path: appendPath(p.path, 0)}, args[1])
		return ret(nil), true
	case "(*sync/atomic.Int32).Load", "(*sync/atomic.Int64).Load", "(*sync/atomic.Uint32).Load", "(*sync/atomic.Uint64).Load", "(*sync/atomic.Bool).Load":
		p := args[0].(*PtrVal)
		v := st.load(&PtrVal{obj: p.obj, path: appendPath(p.path, 1)})
		if name == "Load" && strings.Contains(full, "Bool") {
			return ret(Not(Eq(asTerm(v), BV(0, 32)))), true
		}
		return ret(v), true
	case "(*sync/atomic.Int32).Store", "(*sync/atomic.Int64).Store", "(*sync/atomic.Uint32).Store", "(*sync/atomic.Uint64).Store":
		p := args[0].(*PtrVal)
		st.store(&PtrVal{obj: p.obj, path: appendPath(p.path, 1)}, args[1])
		return ret(nil), true
	case "(*sync/atomic.Int32).Add", "(*sync/atomic.Int64).Add", "(*sync/atomic.Uint32).Add", "(*sync/atomic.Uint64).Add":
		p := args[0].(*PtrVal)
		q := &PtrVal{obj: p.obj, path: appendPath(p.path, 1)}
		nv := Add(asTerm(st.load(q)), asTerm(args[1]))
		st.store(q, nv)
		return ret(nv), true
	case "time.AfterFunc", "time.NewTimer":
		e.res.Stubs[full]++
		id := st.newObj(zeroValue(fn.Signature.Results().At(0).Type().(*types.Pointer).Elem()), nil, "timer")
		return ret(&PtrVal{obj: id}), true
	case "(*time.Timer).Stop", "(*time.Timer).Reset":
		return ret(tTrue), true
	case "time.Now":
		e.res.Stubs[full]++
		return ret(zeroValue(fn.Signature.Results().At(0).Type())), true
	// ---- encoding/binary ----
	case "(encoding/binary.littleEndian).Uint16", "(encoding/binary.littleEndian).Uint32", "(encoding/binary.littleEndian).Uint64":
		n := map[string]int{"Uint16": 2, "Uint32": 4, "Uint64": 8}[name]
		s := args[1].(*SliceVal)
		ln := c64(0)
		if s.obj != 0 {
			ln = s.len
		}
		if !e.require(st, Sle(c64(int64(n)), ln), "bounds@"+siteFn(ins), "bounds", site(ins)) {
			return stDone, true
		}
		b := st.bytesAt(s.obj, s.path)
		v := memSelect(b.mem, s.off)
		for i := 1; i < n; i++ {
			v = Concat(memSelect(b.mem, Add(s.off, c64(int64(i)))), v)
		}
		return ret(v), true
	case "(encoding/binary.littleEndian).PutUint16", "(encoding/binary.littleEndian).PutUint32", "(encoding/binary.littleEndian).PutUint64":
		n := map[string]int{"PutUint16": 2, "PutUint32": 4, "PutUint64": 8}[name]
		s := args[1].(*SliceVal)
		ln := c64(0)
		if s.obj != 0 {
			ln = s.len
		}
		if !e.require(st, Sle(c64(int64(n)), ln), "bounds@"+siteFn(ins), "bounds", site(ins)) {
			return stDone, true
		}
		b := st.bytesAt(s.obj, s.path)
		m := b.mem
		v := asTerm(args[2])
		for i := 0; i < n; i++ {
			m = memStore(m, Add(s.off, c64(int64(i))), Extract(v, i*8+7, i*8))
		}
		st.setBytesAt(s.obj, s.path, &BytesVal{mem: m, n: b.n})
		return ret(nil), true
	// ---- math bits ----
	case "math.Float32bits", "math.Float32frombits", "math.Float64bits", "math.Float64frombits":
		return ret(args[0]), true
	// ---- formatting: opaque strings ----
	case "fmt.Sprintf", "fmt.Sprint", "fmt.Sprintln":
		e.res.Stubs[full]++
		// remember the operands so that harnesses can observe what was formatted (vFmtArg)
		if sl, ok := args[len(args)-1].(*SliceVal); ok && sl.obj != 0 {
			if arr, ok := getAt(st.heap[sl.obj].val, sl.path).(*ArrayVal); ok {
				st.fmtArgs = append([]Value(nil), arr.e...)
			}
		}
		return ret(e.opaqueStr(st, "fmt")), true
	case "fmt.Errorf":
		e.res.Stubs[full]++
		return ret(e.newOpaqueError(st, "fmt.Errorf")), true
	case "errors.New":
		id := st.newObj(&StructVal{f: []Value{args[0]}}, nil, "errors.New")
		return ret(&IfaceVal{t: errorStringPtr(e), v: &PtrVal{obj: id}}), true
	case "(*errors.errorString).Error":
		p := args[0].(*PtrVal)
		return ret(st.load(&PtrVal{obj: p.obj, path: []int{0}})), true
	case "strconv.Itoa", "strconv.Quote", "strconv.FormatInt", "strconv.FormatUint":
		e.res.Stubs[full]++
		return ret(e.opaqueStr(st, "strconv")), true
	case "strconv.AppendInt", "strconv.AppendUint", "strconv.AppendQuote", "strconv.AppendFloat", "strconv.AppendBool":
		// append an opaque token of symbolic length (1..24 bytes) to the destination
		e.res.Stubs[full]++
		return e.appendOpaque(st, f, args[0].(*SliceVal), ins, ret, name, args[1:]), true
	case "runtime.SetFinalizer", "runtime.KeepAlive", "runtime.Gosched", "runtime.GC":
		return ret(nil), true
	case "runtime.Caller":
		return ret(&TupleVal{e: []Value{BV(0, 64), &StrVal{conc: true, s: "file.go"}, c64(1), tTrue}}), true
	case "bytes.Equal":
		r := e.bytesEqual(st, args[0].(*SliceVal), args[1].(*SliceVal))
		if r == nil {
			return stDone, true
		}
		return ret(r), true
	case "(*sync.Pool).Get":
		return ret(&IfaceVal{}), true
	case "(*sync.Pool).Put":
		return ret(nil), true
	}
	return 0, false
}

var errStrPtr types.Type

func errorStringPtr(e *Engine) types.Type {
	if errStrPtr != nil {
		return errStrPtr
	}
	for _, p := range e.prog.AllPackages() {
		if p.Pkg.Path() == "errors" {
			if m := p.Members["errorString"]; m != nil {
				errStrPtr = types.NewPointer(m.Type())
				return errStrPtr
			}
		}
	}
	unsupp("errors.errorString not found")
	return nil
}

func (e *Engine) newOpaqueError(st *State, hint string) Value {
	id := st.newObj(&StructVal{f: []Value{e.opaqueStr(st, hint)}}, nil, hint)
	return &IfaceVal{t: errorStringPtr(e), v: &PtrVal{obj: id}}
}

// appendOpaque models strconv.Append*: the token appended is an uninterpreted function of the
// call's operands (same function + same operands => same bytes and length, 1..24 bytes), so that
// determinism and history-independence of callers can be decided although the digits are not.
func (e *Engine) appendOpaque(st *State, f *Frame, dst *SliceVal, ins ssa.Instruction, ret func(Value) int, key string, operands []Value) int {
	key0 := key
	for _, o := range operands {
		if t, ok := o.(*Term); ok {
			key += fmt.Sprintf("_%d", t.id)
		} else {
			e.nondetSeq++
			key += fmt.Sprintf("_x%d", e.nondetSeq)
		}
	}
	n := Var("toklen_"+key, 64)
	st.assume(And(Sle(c64(1), n), Sle(n, c64(24))))
	src := opaqueTokMem(key)
	st.lastTokOperands = operands
	st.tokLog = append(st.tokLog[:len(st.tokLog):len(st.tokLog)], tokRec{fn: key0, ops: operands})
	dlen := c64(0)
	m := memZero
	if dst.obj != 0 {
		dlen = dst.len
		b := st.bytesAt(dst.obj, dst.path)
		m = memCopy(m, c64(0), dlen, b.mem, dst.off)
	}
	m = memCopy(m, dlen, n, src, c64(0))
	need := Add(dlen, n)
	id := st.newObj(&BytesVal{mem: m, n: need}, nil, "append-opaque")
	return ret(&SliceVal{obj: id, off: c64(0), len: need, cap: need})
}

var tokMems = map[string]*Mem{}

func opaqueTokMem(key string) *Mem {
	if m, ok := tokMems[key]; ok {
		return m
	}
	m := &Mem{kind: MBase, name: "tok_" + key}
	tokMems[key] = m
	return m
}

func (e *Engine) bytesEqual(st *State, a, b *SliceVal) *Term {
	la, lb := c64(0), c64(0)
	if a.obj != 0 {
		la = a.len
	}
	if b.obj != 0 {
		lb = b.len
	}
	le := Eq(la, lb)
	if le.IsFalse() {
		return tFalse
	}
	var n uint64
	switch {
	case la.IsConst():
		n = la.k
	case lb.IsConst():
		n = lb.k
	default:
		// neither length folds to a constant: fork over its (bounded) values; the forks re-execute
		// the call with the length known
		v, ok := e.concretize(st, la, "bytes.Equal-len")
		if !ok {
			return nil
		}
		n = v
	}
	r := le
	if n == 0 {
		return r
	}
	ma := st.bytesAt(a.obj, a.path).mem
	mb := st.bytesAt(b.obj, b.path).mem
	for i := uint64(0); i < n; i++ {
		r = And(r, Eq(memSelect(ma, Add(a.off, BV(i, 64))), memSelect(mb, Add(b.off, BV(i, 64)))))
	}
	return r
}

func (e *Engine) harnessIntrinsic(st *State, f *Frame, fn *ssa.Function, name string, args []Value, ins ssa.Instruction, ret func(Value) int, resultTo ssa.Value) int {
	switch name {
	case "vNondetU8":
		return ret(e.nondet(st, "u8", 8))
	case "vNondetU16":
		return ret(e.nondet(st, "u16", 16))
	case "vNondetU32":
		return ret(e.nondet(st, "u32", 32))
	case "vNondetU64":
		return ret(e.nondet(st, "u64", 64))
	case "vNondetInt":
		return ret(e.nondet(st, "int", 64))
	case "vNondetBool":
		return ret(e.nondet(st, "bool", 0))
	case "vNondetBytes", "vNondetBytesCap":
		n := Resize(asTerm(args[0]), 64, true)
		if !e.require(st, Sle(c64(0), n), "harness-bytes-len", "bounds", site(ins)) {
			return stDone
		}
		capn := n
		if name == "vNondetBytesCap" {
			capn = Resize(asTerm(args[1]), 64, true)
			if !e.require(st, Sle(n, capn), "harness-bytes-cap", "bounds", site(ins)) {
				return stDone
			}
		}
		m := newBaseMem("nd")
		st.nondets = append(st.nondets, NondetRec{Kind: "bytes", bytes: m, n: capn})
		id := st.newObj(&BytesVal{mem: m, n: capn}, nil, "vNondetBytes")
		return ret(&SliceVal{obj: id, off: c64(0), len: n, cap: capn})
	case "vAssume":
		c := asTerm(args[0])
		if c.IsFalse() {
			return stDone
		}
		if !c.IsTrue() && !e.feasible(st, c) {
			return stDone
		}
		st.assume(c)
		return ret(nil)
	case "vAssert":
		id := strArg(args[1])
		if !e.require(st, asTerm(args[0]), id, "assert", site(ins)) {
			return stDone
		}
		return ret(nil)
	case "vReach":
		e.res.Reach[strArg(args[0])]++
		return ret(nil)
	case "vTag":
		st.tags[strArg(args[0])] = asTerm(args[1])
		return ret(nil)
	case "vRegion":
		st.regions[strArg(args[0])] = asTerm(args[1])
		return ret(nil)
	case "vEvent":
		st.events = append(st.events, Event{name: strArg(args[0]), s: strArg(args[0])})
		k := "ev:" + strArg(args[0])
		cur := st.ghost[k]
		if cur == nil {
			cur = c64(0)
		}
		st.ghost[k] = Add(cur, c64(1))
		return ret(nil)
	case "vEventCount":
		cur := st.ghost["ev:"+strArg(args[0])]
		if cur == nil {
			cur = c64(0)
		}
		return ret(cur)
	case "vAllocSum":
		return ret(st.allocSum)
	case "vAllocMax":
		return ret(st.allocMax)
	case "vPanics":
		fv := args[0].(*FuncVal)
		nf := e.newFrame(fv.fn, nil, fv.bind)
		nf.catch = true
		st.frames = append(st.frames, nf)
		return stCont
	case "vSameArray":
		a, b := args[0].(*SliceVal), args[1].(*SliceVal)
		return ret(Bool(a.obj == b.obj && a.obj != 0 && samePath(a.path, b.path)))
	case "vWithin":
		a, b := args[0].(*SliceVal), args[1].(*SliceVal)
		if a.obj == 0 {
			return ret(tTrue)
		}
		if b.obj == 0 || a.obj != b.obj || !samePath(a.path, b.path) {
			return ret(Eq(a.len, c64(0)))
		}
		return ret(And(Sle(b.off, a.off), Sle(Add(a.off, a.len), Add(b.off, b.len))))
	case "vSliceOff":
		// offset of a slice inside its backing array (ghost observation)
		a := args[0].(*SliceVal)
		if a.obj == 0 {
			return ret(c64(0))
		}
		return ret(a.off)
	case "vLocksHeld":
		// mutexes held by the running goroutine
		n := 0
		for k, c := range st.locks {
			if st.heldByOther(k) {
				continue
			}
			n += c
		}
		return ret(c64(int64(n)))
	case "vFmtInt":
		// k-th (from 1) integer operand of the most recent fmt.Sprintf call; natively the k-th decimal
		// integer of the formatted string (second argument)
		k := asTerm(args[0])
		if !k.IsConst() {
			unsupp("vFmtInt index")
		}
		n := 0
		for _, a := range st.fmtArgs {
			iv, ok := a.(*IfaceVal)
			if !ok || iv.t == nil {
				continue
			}
			if t, ok := iv.v.(*Term); ok && t.w > 0 {
				n++
				if uint64(n) == k.k {
					return ret(Resize(t, 64, isSigned(iv.t)))
				}
			}
		}
		unsupp("vFmtInt: no such integer operand")
	case "vTokMark":
		return ret(c64(int64(len(st.tokLog))))
	case "vStrTokIs":
		// vStrTokIs(s, mark, i, kind, val): token i (from 0) appended by strconv since vTokMark()
		// returned mark was produced by Append<kind> from the value val
		mk, i, kind, val := asTerm(args[1]), asTerm(args[2]), asTerm(args[3]), asTerm(args[4])
		if !mk.IsConst() || !i.IsConst() || !kind.IsConst() {
			unsupp("vStrTokIs: symbolic index")
		}
		idx := int(mk.k + i.k)
		if idx >= len(st.tokLog) {
			return ret(tFalse)
		}
		rec := st.tokLog[idx]
		want := map[uint64]string{1: "AppendInt", 2: "AppendUint", 3: "AppendFloat", 4: "AppendBool", 5: "AppendQuote", 6: "AppendFloat"}[kind.k]
		crossInt := false
		if rec.fn != want {
			if (kind.k == 1 || kind.k == 2) && (rec.fn == "AppendInt" || rec.fn == "AppendUint") {
				// the signed and the unsigned formatter agree exactly on values without the top bit
				crossInt = true
			} else {
				return ret(tFalse)
			}
		}
		t, ok := rec.ops[0].(*Term)
		if !ok {
			unsupp("vStrTokIs operand")
		}
		if t.w == 0 {
			// bool operand
			return ret(Eq(t, Not(Eq(val, c64(0)))))
		}
		ok2 := Eq(Resize(t, 64, false), val)
		if crossInt {
			ok2 = And(ok2, Sle(c64(0), val))
		}
		if kind.k == 3 || kind.k == 6 {
			// shortest representation ('g', -1) at the element's own precision
			bits := int64(32)
			if kind.k == 6 {
				bits = 64
			}
			want := []int64{'g', -1, bits}
			for j, w := range want {
				o, isT := rec.ops[1+j].(*Term)
				if !isT {
					unsupp("vStrTokIs float operand")
				}
				ok2 = And(ok2, Eq(Resize(o, 64, true), c64(w)))
			}
		}
		if kind.k == 1 || kind.k == 2 {
			// base 10
			if b, isT := rec.ops[1].(*Term); isT {
				ok2 = And(ok2, Eq(Resize(b, 64, false), c64(10)))
			}
		}
		return ret(ok2)
	case "vStrTokCount":
		mk := asTerm(args[1])
		if !mk.IsConst() {
			unsupp("vStrTokCount: symbolic mark")
		}
		return ret(c64(int64(uint64(len(st.tokLog)) - mk.k)))
	case "vTokOperand":
		// operand k (from 0) of the most recent strconv.Append* call
		k := asTerm(args[0])
		if !k.IsConst() || int(k.k) >= len(st.lastTokOperands) {
			unsupp("vTokOperand index")
		}
		t, ok := st.lastTokOperands[k.k].(*Term)
		if !ok {
			unsupp("vTokOperand operand")
		}
		return ret(Resize(t, 64, false))
	case "vFmtArg":
		// integer operand k of the most recent fmt.Sprintf call, as uint64
		k := asTerm(args[0])
		if !k.IsConst() || int(k.k) >= len(st.fmtArgs) {
			unsupp("vFmtArg index")
		}
		iv, ok := st.fmtArgs[k.k].(*IfaceVal)
		if !ok || iv.t == nil {
			unsupp("vFmtArg operand")
		}
		t, ok := iv.v.(*Term)
		if !ok {
			unsupp("vFmtArg operand is not an integer")
		}
		return ret(Resize(t, 64, isSigned(iv.t)))
	case "vNoBlock":
		st.noBlock = asTerm(args[0]).IsTrue()
		return ret(nil)
	case "vSettle":
		// let every other goroutine run until each has finished or waits (cooperative, oldest
		// first); this call re-executes after each of them stops
		if e.runOther(st) {
			return stCont
		}
		return ret(nil)
	case "vParkedCount":
		return ret(c64(int64(len(st.parked))))
	case "vMutexFree":
		p := args[0].(*PtrVal)
		k := e.lockKey(st, p)
		if st.heldByOther(k) {
			return ret(tTrue) // held (if at all) by another live goroutine: not this goroutine's leak
		}
		return ret(Bool(st.locks[k] == 0))
	case "vHavocChan":
		id := st.newObj(&ChanContent{havoc: true}, nil, "havoc-chan")
		return ret(&ChanVal{obj: id})
	case "vWaitGroupCount":
		p := args[0].(*PtrVal)
		cur := st.ghost["wg:"+e.lockKey(st, p)]
		if cur == nil {
			cur = c64(0)
		}
		return ret(cur)
	case "vPar":
		return e.parStart(st, f, args, ins, ret)
	}
	if strings.HasPrefix(name, "vLazy") {
		return e.lazyNew(st, f, fn, args, ret)
	}
	unsupp("unknown harness intrinsic %s", name)
	return stDone
}

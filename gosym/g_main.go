package main

// gosym: symbolic executor for Go SSA. Usage:
//   gosym -repo /repo -pkg . -harness-dir /verif/harness/capnp -run 'VH_C03_.*' -cfg cfg.json -out out.json

import (
	"crypto/sha256"
	"encoding/json"
	"flag"
	"fmt"
	"os"
	"path/filepath"
	"regexp"
	"sort"
	"strings"
	"time"

	"golang.org/x/tools/go/packages"
	"golang.org/x/tools/go/ssa"
	"golang.org/x/tools/go/ssa/ssautil"
)

type KnownFinding struct {
	ID         string `json:"id"`
	Status     string `json:"status"` // known | fixed
	Property   string `json:"property"`
	Harness    string `json:"harness"`
	Obligation string `json:"obligation"`
	Region     string `json:"region"`
	What       string `json:"what"`
	WhyExact   string `json:"why_exact"`
	Commit     string `json:"commit,omitempty"`
}

type OblOut struct {
	ObligationResult
	Verdict string `json:"verdict"`
}

type RunOut struct {
	Harness     string                 `json:"harness"`
	Cfg         *HarnessCfg            `json:"cfg"`
	Result      *HarnessResult         `json:"result"`
	Obligations []OblOut               `json:"obligations"`
	Cexs        []*Cex                 `json:"counterexamples"`
	Funcs       []FuncOut              `json:"functions_encoded"`
	Solver      map[string]*SolverStat `json:"solver"`
	Verdict     string                 `json:"verdict"` // holds | violated | inconclusive | vacuous
	Error       string                 `json:"error,omitempty"`
}

type FuncOut struct {
	Name string `json:"name"`
	Sha  string `json:"src_sha256,omitempty"`
}

func main() {
	repo := flag.String("repo", "/repo", "repository root")
	pkgDir := flag.String("pkg", ".", "package directory relative to repo (where harness files are overlaid)")
	hdir := flag.String("harness-dir", "", "directory with harness .go files to overlay into the package")
	runRe := flag.String("run", ".*", "regexp of harness function names")
	cfgPath := flag.String("cfg", "", "JSON file: map harness name -> HarnessCfg (key \"*\" = default)")
	out := flag.String("out", "", "output JSON path")
	kfPath := flag.String("kf", "", "known findings JSON")
	tier := flag.String("tier", "quick", "tier name (selects cfg overrides key \"<name>@thorough\")")
	verbose := flag.Bool("v", false, "verbose")
	tmo := flag.Int("solver-timeout-ms", 20000, "per-query solver timeout")
	list := flag.Bool("list", false, "list harnesses and exit")
	extra := flag.String("extra-overlay", "", "comma separated dir=pkgdir pairs: helper .go files overlaid into other packages")
	flag.Parse()

	absPkg := filepath.Join(*repo, *pkgDir)
	overlay := map[string][]byte{}
	if *hdir != "" {
		ents, err := os.ReadDir(*hdir)
		if err != nil {
			fatal(err)
		}
		for _, en := range ents {
			n := en.Name()
			if !strings.HasSuffix(n, ".go") || strings.HasSuffix(n, "_native.go") || strings.HasSuffix(n, "_test.go") {
				continue
			}
			b, err := os.ReadFile(filepath.Join(*hdir, n))
			if err != nil {
				fatal(err)
			}
			overlay[filepath.Join(absPkg, n)] = b
		}
	}
	for _, pair := range strings.Split(*extra, ",") {
		if pair == "" {
			continue
		}
		kv := strings.SplitN(pair, "=", 2)
		if len(kv) != 2 {
			fatal(fmt.Errorf("bad -extra-overlay %q", pair))
		}
		ents, err := os.ReadDir(kv[0])
		if err != nil {
			fatal(err)
		}
		for _, en := range ents {
			if !strings.HasSuffix(en.Name(), ".go") {
				continue
			}
			b, err := os.ReadFile(filepath.Join(kv[0], en.Name()))
			if err != nil {
				fatal(err)
			}
			overlay[filepath.Join(*repo, kv[1], en.Name())] = b
		}
	}
	cfg := &packages.Config{
		Mode:       packages.LoadAllSyntax,
		Dir:        *repo,
		Overlay:    overlay,
		BuildFlags: []string{"-tags=verif"},
		Env:        append(os.Environ(), "GOFLAGS=-mod=mod", "GOPROXY=off", "GOSUMDB=off", "GOTOOLCHAIN=local"),
	}
	pat := "./" + *pkgDir
	pkgs, err := packages.Load(cfg, pat)
	if err != nil {
		fatal(err)
	}
	nerr := 0
	packages.Visit(pkgs, nil, func(p *packages.Package) {
		for _, e := range p.Errors {
			// body-less harness intrinsics are reported as "missing function body" by go list only for
			// compiled packages; type errors are fatal
			if strings.Contains(e.Msg, "missing function body") {
				continue
			}
			fmt.Fprintln(os.Stderr, "load error:", e)
			nerr++
		}
	})
	if nerr > 0 {
		writeOut(*out, []*RunOut{{Harness: "*load*", Verdict: "inconclusive", Error: "package load errors (harness does not compile against this tree)"}})
		os.Exit(3)
	}
	prog, spkgs := ssautil.AllPackages(pkgs, ssa.InstantiateGenerics)
	prog.Build()
	main := spkgs[0]
	if main == nil {
		fatal(fmt.Errorf("no SSA package"))
	}

	re := regexp.MustCompile("^(" + *runRe + ")$")
	var names []string
	for n, m := range main.Members {
		if fn, ok := m.(*ssa.Function); ok && strings.HasPrefix(n, "VH_") && re.MatchString(n) && fn.Blocks != nil {
			names = append(names, n)
		}
	}
	sort.Strings(names)
	if *list {
		for _, n := range names {
			fmt.Println(n)
		}
		return
	}
	cfgs := map[string]*HarnessCfg{}
	if *cfgPath != "" {
		b, err := os.ReadFile(*cfgPath)
		if err != nil {
			fatal(err)
		}
		if err := json.Unmarshal(b, &cfgs); err != nil {
			fatal(err)
		}
	}
	var kfs []KnownFinding
	if *kfPath != "" {
		if b, err := os.ReadFile(*kfPath); err == nil {
			var doc struct {
				Findings []KnownFinding `json:"findings"`
			}
			if err := json.Unmarshal(b, &doc); err != nil {
				fatal(err)
			}
			kfs = doc.Findings
		}
	}

	solver, err := newPortfolio(*tmo)
	if err != nil {
		fatal(err)
	}
	defer solver.close()

	var outs []*RunOut
	for _, n := range names {
		hc := pickCfg(cfgs, n, *tier)
		hc.Name = n
		fn := main.Func(n)
		ro := runHarness(prog, solver, fn, hc, kfs, *verbose)
		outs = append(outs, ro)
		fmt.Fprintf(os.Stderr, "%-50s %-12s paths=%d obl=%d viol=%d inconcl=%d %.1fs\n", n, ro.Verdict, ro.Result.Paths, len(ro.Obligations), len(ro.Cexs), len(ro.Result.Inconclusive), ro.Result.WallS)
		if *verbose || ro.Verdict != "holds" {
			for _, m := range ro.Result.Inconclusive {
				fmt.Fprintln(os.Stderr, "   inconclusive:", m)
			}
			for _, c := range ro.Cexs {
				fmt.Fprintf(os.Stderr, "   CEX %s at %s %s\n", c.Obligation, c.Site, c.Msg)
			}
		}
	}
	writeOut(*out, outs)
}

func pickCfg(cfgs map[string]*HarnessCfg, name, tier string) *HarnessCfg {
	hc := &HarnessCfg{}
	apply := func(k string) {
		if c, ok := cfgs[k]; ok {
			b, _ := json.Marshal(c)
			// overlay non-zero fields
			var m map[string]interface{}
			json.Unmarshal(b, &m)
			cur, _ := json.Marshal(hc)
			var cm map[string]interface{}
			json.Unmarshal(cur, &cm)
			for kk, v := range m {
				switch x := v.(type) {
				case float64:
					if x == 0 {
						continue
					}
				case string:
					if x == "" {
						continue
					}
				case bool:
					if !x {
						continue
					}
				case nil:
					continue
				}
				cm[kk] = v
			}
			nb, _ := json.Marshal(cm)
			nh := &HarnessCfg{}
			json.Unmarshal(nb, nh)
			*hc = *nh
		}
	}
	apply("*")
	apply("*@" + tier)
	// prefix groups: keys ending in '*'
	// (shorter prefixes first, so that the more specific key wins; deterministic)
	keys := make([]string, 0, len(cfgs))
	for k := range cfgs {
		keys = append(keys, k)
	}
	sort.Slice(keys, func(i, j int) bool {
		if len(keys[i]) != len(keys[j]) {
			return len(keys[i]) < len(keys[j])
		}
		return keys[i] < keys[j]
	})
	for _, k := range keys {
		if strings.HasSuffix(k, "*") && k != "*" && strings.HasPrefix(name, strings.TrimSuffix(k, "*")) {
			apply(k)
		}
	}
	for _, k := range keys {
		if strings.HasSuffix(k, "*@"+tier) && k != "*@"+tier && strings.HasPrefix(name, strings.TrimSuffix(k, "*@"+tier)) {
			apply(k)
		}
	}
	apply(name)
	apply(name + "@" + tier)
	return hc
}

func runHarness(prog *ssa.Program, solver *Portfolio, fn *ssa.Function, hc *HarnessCfg, kfs []KnownFinding, verbose bool) *RunOut {
	e := &Engine{harnessPkg: fn.Pkg, prog: prog, solver: solver, cfg: hc, fnInfo: map[*ssa.Function]*FnInfo{}, kf: kfs, harness: hc.Name, verbose: verbose, stepLimit: 2000000}
	e.res = &HarnessResult{Name: hc.Name, Obl: map[string]*ObligationResult{}, Reach: map[string]int{}, Cuts: map[string]int{},
		Funcs: map[string]bool{}, Stubs: map[string]int{}, pathSigs: map[string]bool{}}
	to := hc.TimeoutS
	if to == 0 {
		to = 120
	}
	start := time.Now()
	e.deadline = start.Add(time.Duration(to) * time.Second)
	for k := range solver.stats {
		delete(solver.stats, k)
	}
	ro := &RunOut{Harness: hc.Name, Cfg: hc, Result: e.res}
	func() {
		defer func() {
			if r := recover(); r != nil {
				if u, ok := r.(unsupported); ok {
					e.inconclusive("unsupported: " + u.msg)
					return
				}
				ro.Error = fmt.Sprint(r)
				e.inconclusive("engine error: " + fmt.Sprint(r))
				if verbose {
					panic(r)
				}
			}
		}()
		e.explore(fn)
	}()
	e.res.WallS = time.Since(start).Seconds()
	var ids []string
	for id := range e.res.Obl {
		ids = append(ids, id)
	}
	sort.Strings(ids)
	viol := false
	for _, id := range ids {
		o := e.res.Obl[id]
		v := "holds"
		if o.Violated > 0 {
			v = "violated"
			viol = true
		} else if o.Unknown > 0 {
			v = "inconclusive"
		} else if o.KnownOnly > 0 {
			v = "known-finding"
		}
		ro.Obligations = append(ro.Obligations, OblOut{*o, v})
	}
	ro.Cexs = e.res.Cexs
	var fns []string
	for f := range e.res.Funcs {
		fns = append(fns, f)
	}
	sort.Strings(fns)
	for _, f := range fns {
		ro.Funcs = append(ro.Funcs, FuncOut{Name: f})
	}
	ro.Solver = map[string]*SolverStat{}
	for k, v := range solver.stats {
		c := *v
		ro.Solver[k] = &c
	}
	switch {
	case viol:
		ro.Verdict = "violated"
	case len(e.res.Inconclusive) > 0:
		ro.Verdict = "inconclusive"
	case len(e.res.Reach) == 0 && e.res.PathsDone == 0:
		ro.Verdict = "vacuous"
	default:
		ro.Verdict = "holds"
	}
	return ro
}

func writeOut(path string, outs []*RunOut) {
	b, _ := json.MarshalIndent(outs, "", " ")
	if path == "" {
		os.Stdout.Write(b)
		return
	}
	if err := os.WriteFile(path, b, 0644); err != nil {
		fatal(err)
	}
}

func fatal(err error) {
	fmt.Fprintln(os.Stderr, "gosym:", err)
	os.Exit(2)
}

func shaOf(b []byte) string { return fmt.Sprintf("%x", sha256.Sum256(b)) }

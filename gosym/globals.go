package main

import (
	"golang.org/x/tools/go/ssa"
)

// globalInit finds a simple initialiser for a package-level variable by scanning the package's
// init function for a direct store of a constant. Anything else falls back to the zero value.
func (e *Engine) globalInit(st *State, g *ssa.Global) (Value, bool) {
	if g.Pkg == nil {
		return nil, false
	}
	init := g.Pkg.Func("init")
	if init == nil {
		return nil, false
	}
	for _, b := range init.Blocks {
		for _, ins := range b.Instrs {
			s, ok := ins.(*ssa.Store)
			if !ok || s.Addr != ssa.Value(g) {
				continue
			}
			if c, ok := s.Val.(*ssa.Const); ok {
				return e.constValue(c), true
			}
			if fn, ok := s.Val.(*ssa.Function); ok {
				return &FuncVal{fn: fn}, true
			}
			unsupp("global %s has a non-constant initialiser", g)
		}
	}
	return nil, false
}

package main

// Multiplication abstraction: 64-bit products of two "narrow" operands (sign/zero extensions of
// <= 32-bit values, so the true product fits in int64) are replaced by an uninterpreted function
// plus instantiated axioms that are valid over the integers. An unsat answer for the abstracted
// query is an unsat answer for the exact one (over-approximation); a sat answer is not trusted
// and is re-checked exactly.

import (
	"fmt"
	"math/big"
)

// opRange returns the value range of a narrow operand as big integers.
func opRange(t *Term) (lo, hi *big.Int) {
	one := big.NewInt(1)
	switch t.op {
	case OConst:
		v := big.NewInt(signExt(t.k, t.w))
		return v, v
	case OZExt:
		hi = new(big.Int).Lsh(one, uint(t.a[0].w))
		hi.Sub(hi, one)
		return big.NewInt(0), hi
	case OSExt:
		hi = new(big.Int).Lsh(one, uint(t.a[0].w)-1)
		lo = new(big.Int).Neg(hi)
		hi = new(big.Int).Sub(hi, one)
		return lo, hi
	}
	panic("opRange of non-narrow operand")
}

func prodRange(a, b *Term) (int64, int64) {
	al, ah := opRange(a)
	bl, bh := opRange(b)
	var lo, hi *big.Int
	for _, x := range []*big.Int{al, ah} {
		for _, y := range []*big.Int{bl, bh} {
			p := new(big.Int).Mul(x, y)
			if lo == nil || p.Cmp(lo) < 0 {
				lo = p
			}
			if hi == nil || p.Cmp(hi) > 0 {
				hi = p
			}
		}
	}
	return lo.Int64(), hi.Int64()
}

func rebuild(t *Term, a []*Term) *Term {
	switch t.op {
	case OConst, OVar:
		return t
	case ONot:
		return Not(a[0])
	case OAnd:
		return And(a[0], a[1])
	case OOr:
		return Or(a[0], a[1])
	case OIte:
		return Ite(a[0], a[1], a[2])
	case OEq:
		return Eq(a[0], a[1])
	case OUlt, OUle, OSlt, OSle:
		return cmp(t.op, a[0], a[1])
	case OBNot:
		return BNot(a[0])
	case ONeg:
		return Neg(a[0])
	case OExtract:
		return Extract(a[0], int(t.k>>8), int(t.k&0xff))
	case OConcat:
		return Concat(a[0], a[1])
	case OZExt:
		return ZExt(a[0], t.w)
	case OSExt:
		return SExt(a[0], t.w)
	case OSelect:
		return Select(t.name, a[0])
	case OUF:
		return UF(t.name, t.w, a...)
	}
	return Bin(t.op, a[0], a[1])
}

func narrow(t *Term) bool {
	switch t.op {
	case OConst:
		v := signExt(t.k, t.w)
		return v > -(1<<32) && v < 1<<32
	case OZExt, OSExt:
		return t.a[0].w <= 32
	}
	return false
}

type mulAbs struct {
	memo  map[int]*Term
	prods []absProd
	seen  map[int]bool
}

type absProd struct {
	m, a, b *Term
}

func newMulAbs() *mulAbs { return &mulAbs{memo: map[int]*Term{}, seen: map[int]bool{}} }

func (ma *mulAbs) rw(t *Term) *Term {
	if !t.nl {
		return t
	}
	if r, ok := ma.memo[t.id]; ok {
		return r
	}
	type fr struct {
		t *Term
		i int
	}
	st := []fr{{t, 0}}
	for len(st) > 0 {
		f := &st[len(st)-1]
		if f.i < len(f.t.a) {
			c := f.t.a[f.i]
			f.i++
			if c.nl {
				if _, ok := ma.memo[c.id]; !ok {
					st = append(st, fr{c, 0})
				}
			}
			continue
		}
		x := f.t
		st = st[:len(st)-1]
		if _, ok := ma.memo[x.id]; ok {
			continue
		}
		na := make([]*Term, len(x.a))
		for i, c := range x.a {
			if c.nl {
				na[i] = ma.memo[c.id]
			} else {
				na[i] = c
			}
		}
		var r *Term
		if x.op == OMul && x.w == 64 && narrow(na[0]) && narrow(na[1]) && !na[0].IsConst() && !na[1].IsConst() {
			a, b := na[0], na[1]
			if a.id > b.id {
				a, b = b, a
			}
			r = UF("mulabs64", 64, a, b)
			if !ma.seen[r.id] {
				ma.seen[r.id] = true
				ma.prods = append(ma.prods, absProd{r, a, b})
			}
		} else {
			r = rebuild(x, na)
		}
		ma.memo[x.id] = r
	}
	return ma.memo[t.id]
}

func (ma *mulAbs) rwAll(ts []*Term) []*Term {
	out := make([]*Term, len(ts))
	for i, t := range ts {
		out[i] = ma.rw(t)
	}
	return out
}

// axioms returns integer-valid facts about the abstracted products.
func (ma *mulAbs) axioms() []*Term {
	z := BV(0, 64)
	one := BV(1, 64)
	var ax []*Term
	for _, p := range ma.prods {
		a, b, m := p.a, p.b, p.m
		aPos, bPos := Slt(z, a), Slt(z, b)
		aNeg, bNeg := Slt(a, z), Slt(b, z)
		ax = append(ax,
			Implies(Or(Eq(a, z), Eq(b, z)), Eq(m, z)),
			Implies(And(aPos, bPos), And(Sle(a, m), Sle(b, m))),
			Implies(And(aNeg, bPos), And(Sle(m, a), Slt(m, z))),
			Implies(And(aPos, bNeg), And(Sle(m, b), Slt(m, z))),
			Implies(And(aNeg, bNeg), Slt(z, m)),
			Implies(Eq(a, one), Eq(m, b)),
			Implies(Eq(b, one), Eq(m, a)),
		)
		// exact range of the product from the operand widths (keeps sums with addresses from wrapping)
		lo, hi := prodRange(a, b)
		ax = append(ax, Sle(BV(uint64(lo), 64), m), Sle(m, BV(uint64(hi), 64)))
	}
	// pairwise monotonicity for products sharing an operand
	for i := 0; i < len(ma.prods); i++ {
		for j := i + 1; j < len(ma.prods); j++ {
			p, q := ma.prods[i], ma.prods[j]
			var s, x, y *Term
			switch {
			case p.a == q.a:
				s, x, y = p.a, p.b, q.b
			case p.a == q.b:
				s, x, y = p.a, p.b, q.a
			case p.b == q.a:
				s, x, y = p.b, p.a, q.b
			case p.b == q.b:
				s, x, y = p.b, p.a, q.a
			default:
				// operands may still be semantically equal: instantiate guarded versions
				ax = append(ax, guardedMono(p, q)...)
				continue
			}
			sNonNeg := Sle(z, s)
			ax = append(ax,
				Implies(And(sNonNeg, Slt(x, y)), Sle(Add(p.m, s), q.m)),
				Implies(And(sNonNeg, Slt(y, x)), Sle(Add(q.m, s), p.m)),
			)
		}
	}
	return ax
}

func guardedMono(p, q absProd) []*Term {
	z := BV(0, 64)
	var ax []*Term
	for _, c := range [][4]*Term{{p.a, p.b, q.a, q.b}, {p.a, p.b, q.b, q.a}, {p.b, p.a, q.a, q.b}, {p.b, p.a, q.b, q.a}} {
		s1, x, s2, y := c[0], c[1], c[2], c[3]
		g := And(Eq(s1, s2), Sle(z, s1))
		ax = append(ax,
			Implies(And(g, Slt(x, y)), Sle(Add(p.m, s1), q.m)),
			Implies(And(g, Slt(y, x)), Sle(Add(q.m, s1), p.m)),
			Implies(And(Eq(s1, s2), Eq(x, y)), Eq(p.m, q.m)),
		)
	}
	return ax
}

var _ = fmt.Sprint

package main

// Term DAG: hash-consed bit-vector / boolean terms with eager constant folding,
// an SMT-LIB2 printer and a concrete evaluator.

import (
	"fmt"
	"math/bits"
	"strings"
)

type Op uint8

const (
	OConst Op = iota
	OVar
	ONot // bool
	OAnd // bool
	OOr  // bool
	OIte
	OEq
	OUlt
	OUle
	OSlt
	OSle
	OAdd
	OSub
	OMul
	OUDiv
	OURem
	OSDiv
	OSRem
	OBAnd
	OBOr
	OBXor
	OBNot
	ONeg
	OShl
	OLShr
	OAShr
	OExtract // k = hi<<8 | lo
	OConcat
	OZExt
	OSExt
	OSelect // name = base array, a[0] = 64-bit index; result 8 bits
	OUF     // uninterpreted function name(args...) -> width w
)

var opNames = map[Op]string{
	ONot: "not", OAnd: "and", OOr: "or", OIte: "ite", OEq: "=", OUlt: "bvult", OUle: "bvule",
	OSlt: "bvslt", OSle: "bvsle", OAdd: "bvadd", OSub: "bvsub", OMul: "bvmul", OUDiv: "bvudiv",
	OURem: "bvurem", OSDiv: "bvsdiv", OSRem: "bvsrem", OBAnd: "bvand", OBOr: "bvor", OBXor: "bvxor",
	OBNot: "bvnot", ONeg: "bvneg", OShl: "bvshl", OLShr: "bvlshr", OAShr: "bvashr", OConcat: "concat",
}

type Term struct {
	id   int
	op   Op
	w    uint8 // 0 = Bool, else bit width 1..64
	a    []*Term
	k    uint64
	name string
	nl   bool // contains symbolic*symbolic mul/div/rem
	at   []int32
	atOK bool
}

type tkey struct {
	op         Op
	w          uint8
	k          uint64
	name       string
	a0, a1, a2 int
	n          int
}

type TermStore struct {
	tab   map[tkey]*Term
	all   []*Term
	ufs   map[string]string // name -> declaration line
	ufSeq int
}

var TS = &TermStore{tab: map[tkey]*Term{}, ufs: map[string]string{}}

func (ts *TermStore) mk(op Op, w uint8, k uint64, name string, a ...*Term) *Term {
	key := tkey{op: op, w: w, k: k, name: name, n: len(a), a0: -1, a1: -1, a2: -1}
	if len(a) > 0 {
		key.a0 = a[0].id
	}
	if len(a) > 1 {
		key.a1 = a[1].id
	}
	if len(a) > 2 {
		key.a2 = a[2].id
	}
	if len(a) > 3 {
		// rare (UF with many args): fold the rest into the name
		var sb strings.Builder
		sb.WriteString(name)
		for _, x := range a[3:] {
			fmt.Fprintf(&sb, ",%d", x.id)
		}
		key.name = sb.String()
	}
	if t, ok := ts.tab[key]; ok {
		return t
	}
	t := &Term{id: len(ts.all), op: op, w: w, k: k, name: name, a: a}
	for _, x := range a {
		if x.nl {
			t.nl = true
		}
	}
	if (op == OMul || op == OUDiv || op == OURem || op == OSDiv || op == OSRem) && !a[0].IsConst() && !a[1].IsConst() {
		t.nl = true
	}
	ts.tab[key] = t
	ts.all = append(ts.all, t)
	return t
}

func mask(w uint8) uint64 {
	if w >= 64 {
		return ^uint64(0)
	}
	return (uint64(1) << w) - 1
}

func (t *Term) IsConst() bool { return t.op == OConst }
func (t *Term) IsBool() bool  { return t.w == 0 }
func (t *Term) IsTrue() bool  { return t.op == OConst && t.w == 0 && t.k == 1 }
func (t *Term) IsFalse() bool { return t.op == OConst && t.w == 0 && t.k == 0 }

func signExt(v uint64, w uint8) int64 {
	if w >= 64 {
		return int64(v)
	}
	sh := 64 - uint(w)
	return int64(v<<sh) >> sh
}

// ---- constructors ----

func BV(v uint64, w uint8) *Term {
	if w == 0 {
		panic("BV width 0")
	}
	return TS.mk(OConst, w, v&mask(w), "")
}

var (
	tTrue  *Term
	tFalse *Term
)

func init() {
	tFalse = TS.mk(OConst, 0, 0, "")
	tTrue = TS.mk(OConst, 0, 1, "")
}

func Bool(b bool) *Term {
	if b {
		return tTrue
	}
	return tFalse
}

func Var(name string, w uint8) *Term { return TS.mk(OVar, w, 0, name) }

func Not(a *Term) *Term {
	if a.w != 0 {
		panic("Not on non-bool")
	}
	if a.IsConst() {
		return Bool(a.k == 0)
	}
	if a.op == ONot {
		return a.a[0]
	}
	return TS.mk(ONot, 0, 0, "", a)
}

func And(a, b *Term) *Term {
	if a.w != 0 || b.w != 0 {
		panic("And on non-bool")
	}
	if a.IsFalse() || b.IsFalse() {
		return tFalse
	}
	if a.IsTrue() {
		return b
	}
	if b.IsTrue() {
		return a
	}
	if a == b {
		return a
	}
	if a.id > b.id {
		a, b = b, a
	}
	return TS.mk(OAnd, 0, 0, "", a, b)
}

func Or(a, b *Term) *Term {
	if a.w != 0 || b.w != 0 {
		panic("Or on non-bool")
	}
	if a.IsTrue() || b.IsTrue() {
		return tTrue
	}
	if a.IsFalse() {
		return b
	}
	if b.IsFalse() {
		return a
	}
	if a == b {
		return a
	}
	if a.id > b.id {
		a, b = b, a
	}
	return TS.mk(OOr, 0, 0, "", a, b)
}

func Implies(a, b *Term) *Term { return Or(Not(a), b) }

func Ite(c, a, b *Term) *Term {
	if c.w != 0 {
		panic("Ite cond non-bool")
	}
	if a.w != b.w {
		panic(fmt.Sprintf("Ite width mismatch %d %d", a.w, b.w))
	}
	if c.IsTrue() {
		return a
	}
	if c.IsFalse() {
		return b
	}
	if a == b {
		return a
	}
	if a.w == 0 {
		if a.IsTrue() && b.IsFalse() {
			return c
		}
		if a.IsFalse() && b.IsTrue() {
			return Not(c)
		}
		if a.IsTrue() {
			return Or(c, b)
		}
		if a.IsFalse() {
			return And(Not(c), b)
		}
		if b.IsTrue() {
			return Or(Not(c), a)
		}
		if b.IsFalse() {
			return And(c, a)
		}
	}
	if c.op == ONot {
		return TS.mk(OIte, a.w, 0, "", c.a[0], b, a)
	}
	return TS.mk(OIte, a.w, 0, "", c, a, b)
}

// linSplit decomposes t into base + const (mod 2^w).
func linSplit(t *Term) (*Term, uint64) {
	if t.op == OConst {
		return nil, t.k
	}
	if t.op == OAdd && t.a[1].op == OConst {
		return t.a[0], t.a[1].k
	}
	return t, 0
}

func Eq(a, b *Term) *Term {
	if a.w != b.w {
		panic(fmt.Sprintf("Eq width mismatch %d %d", a.w, b.w))
	}
	if a == b {
		return tTrue
	}
	if a.IsConst() && b.IsConst() {
		return Bool(a.k == b.k)
	}
	if a.w == 0 {
		if a.IsConst() {
			a, b = b, a
		}
		if b.IsTrue() {
			return a
		}
		if b.IsFalse() {
			return Not(a)
		}
	} else {
		ba, ca := linSplit(a)
		bb, cb := linSplit(b)
		if ba == bb && ba != nil {
			return Bool(ca == cb)
		}
		// ite(c, k1, k2) == k  with constants
		if b.IsConst() && a.op == OIte && a.a[1].IsConst() && a.a[2].IsConst() {
			e1 := a.a[1].k == b.k
			e2 := a.a[2].k == b.k
			switch {
			case e1 && e2:
				return tTrue
			case e1:
				return a.a[0]
			case e2:
				return Not(a.a[0])
			default:
				return tFalse
			}
		}
		// zext(x) == const
		if b.IsConst() && a.op == OZExt {
			if b.k > mask(a.a[0].w) {
				return tFalse
			}
			return Eq(a.a[0], BV(b.k, a.a[0].w))
		}
	}
	if a.id > b.id {
		a, b = b, a
	}
	return TS.mk(OEq, 0, 0, "", a, b)
}

func cmp(op Op, a, b *Term) *Term {
	if a.w != b.w || a.w == 0 {
		panic(fmt.Sprintf("cmp width mismatch %d %d", a.w, b.w))
	}
	if a.IsConst() && b.IsConst() {
		switch op {
		case OUlt:
			return Bool(a.k < b.k)
		case OUle:
			return Bool(a.k <= b.k)
		case OSlt:
			return Bool(signExt(a.k, a.w) < signExt(b.k, b.w))
		case OSle:
			return Bool(signExt(a.k, a.w) <= signExt(b.k, b.w))
		}
	}
	if a == b {
		return Bool(op == OUle || op == OSle)
	}
	switch op {
	case OUlt:
		if b.IsConst() && b.k == 0 {
			return tFalse
		}
		if a.IsConst() && a.k == mask(a.w) {
			return tFalse
		}
	case OUle:
		if a.IsConst() && a.k == 0 {
			return tTrue
		}
		if b.IsConst() && b.k == mask(b.w) {
			return tTrue
		}
	}
	// zext(x) vs const out of range
	if (op == OUlt || op == OUle) && a.op == OZExt && b.IsConst() && b.k > mask(a.a[0].w) {
		return tTrue
	}
	if (op == OSlt || op == OSle) && a.op == OZExt && b.IsConst() && signExt(b.k, b.w) >= 0 && b.k > mask(a.a[0].w) {
		return tTrue
	}
	if (op == OSlt) && b.op == OZExt && a.IsConst() && signExt(a.k, a.w) < 0 {
		return tTrue
	}
	if (op == OSle) && b.op == OZExt && a.IsConst() && signExt(a.k, a.w) <= 0 {
		return tTrue
	}
	if (op == OSlt) && a.op == OZExt && b.IsConst() && signExt(b.k, b.w) <= 0 {
		return tFalse
	}
	return TS.mk(op, 0, 0, "", a, b)
}

func Ult(a, b *Term) *Term { return cmp(OUlt, a, b) }
func Ule(a, b *Term) *Term { return cmp(OUle, a, b) }
func Slt(a, b *Term) *Term { return cmp(OSlt, a, b) }
func Sle(a, b *Term) *Term { return cmp(OSle, a, b) }

func foldBin(op Op, x, y uint64, w uint8) (uint64, bool) {
	m := mask(w)
	switch op {
	case OAdd:
		return (x + y) & m, true
	case OSub:
		return (x - y) & m, true
	case OMul:
		return (x * y) & m, true
	case OUDiv:
		if y == 0 {
			return m, true
		}
		return (x / y) & m, true
	case OURem:
		if y == 0 {
			return x, true
		}
		return (x % y) & m, true
	case OSDiv:
		sx, sy := signExt(x, w), signExt(y, w)
		if sy == 0 {
			if sx >= 0 {
				return m, true
			}
			return 1, true
		}
		if sy == -1 {
			return uint64(-sx) & m, true
		}
		return uint64(sx/sy) & m, true
	case OSRem:
		sx, sy := signExt(x, w), signExt(y, w)
		if sy == 0 {
			return x, true
		}
		if sy == -1 {
			return 0, true
		}
		return uint64(sx%sy) & m, true
	case OBAnd:
		return x & y, true
	case OBOr:
		return x | y, true
	case OBXor:
		return x ^ y, true
	case OShl:
		if y >= uint64(w) {
			return 0, true
		}
		return (x << y) & m, true
	case OLShr:
		if y >= uint64(w) {
			return 0, true
		}
		return (x >> y) & m, true
	case OAShr:
		sx := signExt(x, w)
		if y >= uint64(w) {
			y = uint64(w) - 1
		}
		return uint64(sx>>y) & m, true
	}
	return 0, false
}

func Bin(op Op, a, b *Term) *Term {
	if a.w != b.w || a.w == 0 {
		panic(fmt.Sprintf("Bin %v width mismatch %d %d", opNames[op], a.w, b.w))
	}
	w := a.w
	if a.IsConst() && b.IsConst() {
		v, _ := foldBin(op, a.k, b.k, w)
		return BV(v, w)
	}
	m := mask(w)
	switch op {
	case OAdd:
		if a.IsConst() {
			a, b = b, a
		}
		if b.IsConst() {
			if b.k == 0 {
				return a
			}
			if a.op == OAdd && a.a[1].IsConst() {
				return Bin(OAdd, a.a[0], BV(a.a[1].k+b.k, w))
			}
		} else if a.op == OAdd && a.a[1].IsConst() {
			// (x+c)+y -> (x+y)+c
			return Bin(OAdd, Bin(OAdd, a.a[0], b), a.a[1])
		} else if b.op == OAdd && b.a[1].IsConst() {
			return Bin(OAdd, Bin(OAdd, a, b.a[0]), b.a[1])
		}
	case OSub:
		if b.IsConst() {
			return Bin(OAdd, a, BV(-b.k, w))
		}
		if a == b {
			return BV(0, w)
		}
		{
			ba, ca := linSplit(a)
			bb, cb := linSplit(b)
			if ba != nil && ba == bb {
				return BV(ca-cb, w)
			}
			if bb != nil && cb != 0 {
				// a - (y + c) -> (a - y) + (-c)
				return Bin(OAdd, Bin(OSub, a, bb), BV(-cb, w))
			}
			if ba != nil && ca != 0 && !a.IsConst() {
				return Bin(OAdd, Bin(OSub, ba, b), BV(ca, w))
			}
		}
	case OMul:
		if a.IsConst() {
			a, b = b, a
		}
		if b.IsConst() {
			if b.k == 0 {
				return BV(0, w)
			}
			if b.k == 1 {
				return a
			}
			if b.k&(b.k-1) == 0 {
				return Bin(OShl, a, BV(uint64(bits.TrailingZeros64(b.k)), w))
			}
		}
	case OUDiv:
		if b.IsConst() && b.k == 1 {
			return a
		}
		if b.IsConst() && b.k != 0 && b.k&(b.k-1) == 0 {
			return Bin(OLShr, a, BV(uint64(bits.TrailingZeros64(b.k)), w))
		}
	case OURem:
		if b.IsConst() && b.k != 0 && b.k&(b.k-1) == 0 {
			return Bin(OBAnd, a, BV(b.k-1, w))
		}
	case OSDiv:
		// signed division by 2^k (k < w-1), rounding toward zero:
		//   (x + ((x >>s (w-1)) & (2^k - 1))) >>s k
		if b.IsConst() && b.k == 1 {
			return a
		}
		if b.IsConst() && b.k > 1 && b.k&(b.k-1) == 0 && b.k < uint64(1)<<(w-1) {
			k := uint64(bits.TrailingZeros64(b.k))
			sign := Bin(OAShr, a, BV(uint64(w)-1, w))
			bias := Bin(OBAnd, sign, BV(b.k-1, w))
			return Bin(OAShr, Bin(OAdd, a, bias), BV(k, w))
		}
	case OSRem:
		// x % 2^k = x - ((x / 2^k) << k)
		if b.IsConst() && b.k > 1 && b.k&(b.k-1) == 0 && b.k < uint64(1)<<(w-1) {
			k := uint64(bits.TrailingZeros64(b.k))
			q := Bin(OSDiv, a, b)
			return Bin(OSub, a, Bin(OShl, q, BV(k, w)))
		}
	case OBAnd:
		if a.IsConst() {
			a, b = b, a
		}
		if b.IsConst() {
			if b.k == 0 {
				return BV(0, w)
			}
			if b.k == m {
				return a
			}
			// zext(x) & mask covering x
			if a.op == OZExt && b.k&mask(a.a[0].w) == mask(a.a[0].w) {
				return a
			}
		}
		if a == b {
			return a
		}
	case OBOr:
		if a.IsConst() {
			a, b = b, a
		}
		if b.IsConst() {
			if b.k == 0 {
				return a
			}
			if b.k == m {
				return BV(m, w)
			}
		}
		if a == b {
			return a
		}
	case OBXor:
		if a.IsConst() {
			a, b = b, a
		}
		if b.IsConst() && b.k == 0 {
			return a
		}
		if a == b {
			return BV(0, w)
		}
	case OShl, OLShr:
		if b.IsConst() {
			if b.k == 0 {
				return a
			}
			if b.k >= uint64(w) {
				return BV(0, w)
			}
			if op == OLShr {
				// (zext x) >> k  where k >= width(x)
				if a.op == OZExt && b.k >= uint64(a.a[0].w) {
					return BV(0, w)
				}
				// lshr as extract+zext: canonical form helps byte extraction of concats
				return ZExt(Extract(a, int(w)-1, int(b.k)), w)
			}
		}
		if a.IsConst() && a.k == 0 {
			return a
		}
	case OAShr:
		if b.IsConst() && b.k == 0 {
			return a
		}
	}
	switch op {
	case OAdd, OMul, OBAnd, OBOr, OBXor:
		// canonical operand order for commutative operators (constants last)
		if !a.IsConst() && !b.IsConst() && a.id > b.id {
			a, b = b, a
		}
	}
	return TS.mk(op, w, 0, "", a, b)
}

func Add(a, b *Term) *Term { return Bin(OAdd, a, b) }
func Sub(a, b *Term) *Term { return Bin(OSub, a, b) }
func Mul(a, b *Term) *Term { return Bin(OMul, a, b) }

func BNot(a *Term) *Term {
	if a.IsConst() {
		return BV(^a.k, a.w)
	}
	if a.op == OBNot {
		return a.a[0]
	}
	return TS.mk(OBNot, a.w, 0, "", a)
}

func Neg(a *Term) *Term {
	if a.IsConst() {
		return BV(-a.k, a.w)
	}
	return TS.mk(ONeg, a.w, 0, "", a)
}

func Extract(a *Term, hi, lo int) *Term {
	if hi < lo || hi >= int(a.w) || lo < 0 {
		panic(fmt.Sprintf("Extract bad range %d:%d of %d", hi, lo, a.w))
	}
	w := uint8(hi - lo + 1)
	if w == a.w {
		return a
	}
	if a.IsConst() {
		return BV(a.k>>uint(lo), w)
	}
	switch a.op {
	case OExtract:
		ilo := int(a.k & 0xff)
		return Extract(a.a[0], hi+ilo, lo+ilo)
	case OConcat:
		lw := int(a.a[1].w)
		if hi < lw {
			return Extract(a.a[1], hi, lo)
		}
		if lo >= lw {
			return Extract(a.a[0], hi-lw, lo-lw)
		}
	case OZExt:
		iw := int(a.a[0].w)
		if hi < iw {
			return Extract(a.a[0], hi, lo)
		}
		if lo >= iw {
			return BV(0, w)
		}
		return ZExt(Extract(a.a[0], iw-1, lo), w)
	case OSExt:
		iw := int(a.a[0].w)
		if hi < iw {
			return Extract(a.a[0], hi, lo)
		}
	case OIte:
		if a.a[1].IsConst() || a.a[2].IsConst() {
			return Ite(a.a[0], Extract(a.a[1], hi, lo), Extract(a.a[2], hi, lo))
		}
	case OBOr, OBAnd, OBXor:
		// distribute when it simplifies (typical little-endian assembly: zext(b0) | zext(b1)<<8 ...)
		l := Extract(a.a[0], hi, lo)
		r := Extract(a.a[1], hi, lo)
		if l.IsConst() || r.IsConst() || a.op == OBOr {
			return Bin(a.op, l, r)
		}
	case OShl:
		if a.a[1].IsConst() {
			s := int(a.a[1].k)
			if lo >= s {
				return Extract(a.a[0], hi-s, lo-s)
			}
			if hi < s {
				return BV(0, w)
			}
		}
	}
	return TS.mk(OExtract, w, uint64(hi)<<8|uint64(lo), "", a)
}

func Concat(hi, lo *Term) *Term {
	w := hi.w + lo.w
	if int(hi.w)+int(lo.w) > 64 {
		panic("Concat wider than 64")
	}
	if hi.IsConst() && lo.IsConst() {
		return BV(hi.k<<lo.w|lo.k, w)
	}
	if hi.IsConst() && hi.k == 0 {
		return ZExt(lo, w)
	}
	// extract(x,h,m+1) ++ extract(x,m,l) -> extract(x,h,l)
	if hi.op == OExtract && lo.op == OExtract && hi.a[0] == lo.a[0] {
		hlo := int(hi.k & 0xff)
		lhi := int(lo.k >> 8)
		if hlo == lhi+1 {
			return Extract(hi.a[0], int(hi.k>>8), int(lo.k&0xff))
		}
	}
	return TS.mk(OConcat, w, 0, "", hi, lo)
}

func ZExt(a *Term, w uint8) *Term {
	if w < a.w {
		panic("ZExt narrowing")
	}
	if w == a.w {
		return a
	}
	if a.IsConst() {
		return BV(a.k, w)
	}
	if a.op == OZExt {
		return ZExt(a.a[0], w)
	}
	return TS.mk(OZExt, w, 0, "", a)
}

func SExt(a *Term, w uint8) *Term {
	if w < a.w {
		panic("SExt narrowing")
	}
	if w == a.w {
		return a
	}
	if a.IsConst() {
		return BV(uint64(signExt(a.k, a.w)), w)
	}
	if a.op == OZExt {
		return ZExt(a.a[0], w)
	}
	return TS.mk(OSExt, w, 0, "", a)
}

// Resize converts between widths following Go conversion rules.
func Resize(a *Term, w uint8, signed bool) *Term {
	if w == a.w {
		return a
	}
	if w < a.w {
		return Extract(a, int(w)-1, 0)
	}
	if signed {
		return SExt(a, w)
	}
	return ZExt(a, w)
}

func Select(base string, idx *Term) *Term {
	if idx.w != 64 {
		panic("Select idx width")
	}
	if _, ok := TS.ufs[base]; !ok {
		TS.ufs[base] = fmt.Sprintf("(declare-fun %s ((_ BitVec 64)) (_ BitVec 8))", base)
	}
	return TS.mk(OSelect, 8, 0, base, idx)
}

// UF builds an uninterpreted function application.
func UF(name string, w uint8, args ...*Term) *Term {
	if _, ok := TS.ufs[name]; !ok {
		var sb strings.Builder
		fmt.Fprintf(&sb, "(declare-fun %s (", name)
		for _, a := range args {
			sb.WriteString(sortOf(a.w))
			sb.WriteString(" ")
		}
		fmt.Fprintf(&sb, ") %s)", sortOf(w))
		TS.ufs[name] = sb.String()
	}
	return TS.mk(OUF, w, 0, name, args...)
}

func sortOf(w uint8) string {
	if w == 0 {
		return "Bool"
	}
	return fmt.Sprintf("(_ BitVec %d)", w)
}

// ---- printing ----

func (t *Term) ref() string {
	switch t.op {
	case OConst:
		if t.w == 0 {
			if t.k == 1 {
				return "true"
			}
			return "false"
		}
		if t.w%4 == 0 {
			return fmt.Sprintf("#x%0*x", int(t.w/4), t.k)
		}
		return fmt.Sprintf("(_ bv%d %d)", t.k, t.w)
	case OVar:
		return t.name
	}
	return fmt.Sprintf("t%d", t.id)
}

// body prints the defining expression of t in terms of refs of its children.
func (t *Term) body() string {
	switch t.op {
	case OConst, OVar:
		return t.ref()
	case OExtract:
		return fmt.Sprintf("((_ extract %d %d) %s)", t.k>>8, t.k&0xff, t.a[0].ref())
	case OZExt:
		return fmt.Sprintf("((_ zero_extend %d) %s)", t.w-t.a[0].w, t.a[0].ref())
	case OSExt:
		return fmt.Sprintf("((_ sign_extend %d) %s)", t.w-t.a[0].w, t.a[0].ref())
	case OSelect:
		return fmt.Sprintf("(%s %s)", t.name, t.a[0].ref())
	case OUF:
		if len(t.a) == 0 {
			return t.name
		}
		var sb strings.Builder
		sb.WriteString("(" + t.name)
		for _, a := range t.a {
			sb.WriteString(" " + a.ref())
		}
		sb.WriteString(")")
		return sb.String()
	}
	var sb strings.Builder
	sb.WriteString("(" + opNames[t.op])
	for _, a := range t.a {
		sb.WriteString(" " + a.ref())
	}
	sb.WriteString(")")
	return sb.String()
}

func (t *Term) String() string {
	return t.strDepth(4)
}

func (t *Term) strDepth(d int) string {
	switch t.op {
	case OConst:
		if t.w == 0 {
			return t.ref()
		}
		return fmt.Sprintf("%#x:%d", t.k, t.w)
	case OVar:
		return t.name
	}
	if d == 0 {
		return fmt.Sprintf("t%d", t.id)
	}
	var sb strings.Builder
	switch t.op {
	case OExtract:
		fmt.Fprintf(&sb, "(extract[%d:%d]", t.k>>8, t.k&0xff)
	case OZExt:
		fmt.Fprintf(&sb, "(zext%d", t.w)
	case OSExt:
		fmt.Fprintf(&sb, "(sext%d", t.w)
	case OSelect, OUF:
		sb.WriteString("(" + t.name)
	default:
		sb.WriteString("(" + opNames[t.op])
	}
	for _, a := range t.a {
		sb.WriteString(" " + a.strDepth(d-1))
	}
	sb.WriteString(")")
	return sb.String()
}

// ---- evaluation under a model ----

type Model struct {
	vars map[string]uint64
	ufs  map[string]uint64 // key: name + "(" + args... + ")"
}

func (m *Model) Eval(t *Term, memo map[int]uint64) uint64 {
	if v, ok := memo[t.id]; ok {
		return v
	}
	var v uint64
	switch t.op {
	case OConst:
		v = t.k
	case OVar:
		v = m.vars[t.name]
	case ONot:
		v = 1 - m.Eval(t.a[0], memo)
	case OAnd:
		v = m.Eval(t.a[0], memo) & m.Eval(t.a[1], memo)
	case OOr:
		v = m.Eval(t.a[0], memo) | m.Eval(t.a[1], memo)
	case OIte:
		if m.Eval(t.a[0], memo) == 1 {
			v = m.Eval(t.a[1], memo)
		} else {
			v = m.Eval(t.a[2], memo)
		}
	case OEq:
		if m.Eval(t.a[0], memo) == m.Eval(t.a[1], memo) {
			v = 1
		}
	case OUlt, OUle, OSlt, OSle:
		x, y := m.Eval(t.a[0], memo), m.Eval(t.a[1], memo)
		w := t.a[0].w
		var b bool
		switch t.op {
		case OUlt:
			b = x < y
		case OUle:
			b = x <= y
		case OSlt:
			b = signExt(x, w) < signExt(y, w)
		case OSle:
			b = signExt(x, w) <= signExt(y, w)
		}
		if b {
			v = 1
		}
	case OBNot:
		v = ^m.Eval(t.a[0], memo) & mask(t.w)
	case ONeg:
		v = -m.Eval(t.a[0], memo) & mask(t.w)
	case OExtract:
		v = (m.Eval(t.a[0], memo) >> (t.k & 0xff)) & mask(t.w)
	case OConcat:
		v = m.Eval(t.a[0], memo)<<t.a[1].w | m.Eval(t.a[1], memo)
	case OZExt:
		v = m.Eval(t.a[0], memo)
	case OSExt:
		v = uint64(signExt(m.Eval(t.a[0], memo), t.a[0].w)) & mask(t.w)
	case OSelect, OUF:
		key := t.name + "("
		for _, a := range t.a {
			key += fmt.Sprintf("%d,", m.Eval(a, memo))
		}
		v = m.ufs[key]
	default:
		x, y := m.Eval(t.a[0], memo), m.Eval(t.a[1], memo)
		v, _ = foldBin(t.op, x, y, t.w)
	}
	memo[t.id] = v
	return v
}


// ---- atoms (variables / base arrays / UF symbols) for constraint independence ----

var atomIDs = map[string]int32{}

func atomID(name string) int32 {
	if id, ok := atomIDs[name]; ok {
		return id
	}
	id := int32(len(atomIDs))
	atomIDs[name] = id
	return id
}

func mergeAtoms(a, b []int32) []int32 {
	if len(a) == 0 {
		return b
	}
	if len(b) == 0 {
		return a
	}
	out := make([]int32, 0, len(a)+len(b))
	i, j := 0, 0
	for i < len(a) && j < len(b) {
		switch {
		case a[i] < b[j]:
			out = append(out, a[i])
			i++
		case a[i] > b[j]:
			out = append(out, b[j])
			j++
		default:
			out = append(out, a[i])
			i++
			j++
		}
	}
	out = append(out, a[i:]...)
	out = append(out, b[j:]...)
	return out
}

func (t *Term) atoms() []int32 {
	if t.atOK {
		return t.at
	}
	// iterative post-order
	type fr struct {
		t *Term
		i int
	}
	st := []fr{{t, 0}}
	for len(st) > 0 {
		f := &st[len(st)-1]
		if f.i < len(f.t.a) {
			c := f.t.a[f.i]
			f.i++
			if !c.atOK {
				st = append(st, fr{c, 0})
			}
			continue
		}
		x := f.t
		st = st[:len(st)-1]
		if x.atOK {
			continue
		}
		var at []int32
		switch x.op {
		case OVar:
			at = []int32{atomID(x.name)}
		case OSelect, OUF:
			at = []int32{atomID(x.name)}
		}
		for _, c := range x.a {
			at = mergeAtoms(at, c.at)
		}
		x.at = at
		x.atOK = true
	}
	return t.at
}

// sliceFor returns the subset of pc that is (transitively) connected to the query terms through
// shared atoms. Dropping the rest preserves satisfiability as long as pc itself is satisfiable.
func sliceFor(pc []*Term, extra []*Term) []*Term {
	if len(pc) == 0 {
		return nil
	}
	have := map[int32]bool{}
	for _, e := range extra {
		for _, a := range e.atoms() {
			have[a] = true
		}
	}
	in := make([]bool, len(pc))
	changed := true
	for changed {
		changed = false
		for i, t := range pc {
			if in[i] {
				continue
			}
			hit := false
			at := t.atoms()
			for _, a := range at {
				if have[a] {
					hit = true
					break
				}
			}
			if len(at) == 0 {
				hit = true // constant-only constraint (should not happen): keep
			}
			if hit {
				in[i] = true
				changed = true
				for _, a := range at {
					have[a] = true
				}
			}
		}
	}
	var out []*Term
	for i, t := range pc {
		if in[i] {
			out = append(out, t)
		}
	}
	return out
}

package main

// The SSA interpreter: forking depth-first symbolic execution.

import (
	"fmt"
	"go/constant"
	"go/token"
	"go/types"
	"math"
	"os"
	"sort"
	"strings"
	"time"

	"golang.org/x/tools/go/ssa"
)

type ObligationResult struct {
	ID        string `json:"id"`
	Kind      string `json:"kind"` // assert | bounds | nil | div | panic | lock | ...
	Checked   int    `json:"checked"`
	Trivial   int    `json:"trivial"`
	Violated  int    `json:"violated"`
	Unknown   int    `json:"unknown"`
	KnownOnly int    `json:"known_only"`
	Site      string `json:"site,omitempty"`
	firstCex  *Cex
	kfMatched map[string]bool
}

type Cex struct {
	Obligation string              `json:"obligation"`
	Kind       string              `json:"kind"`
	Site       string              `json:"site"`
	Harness    string              `json:"harness"`
	Nondets    []NondetOut         `json:"nondets"`
	Tags       map[string]uint64   `json:"tags,omitempty"`
	Path       []string            `json:"path,omitempty"`
	Events     []string            `json:"events,omitempty"`
	Msg        string              `json:"msg,omitempty"`
	Trace      []string            `json:"trace,omitempty"`
	Extra      map[string][]string `json:"extra,omitempty"`
	Open       bool                `json:"open,omitempty"` // no native replay possible: the path is the witness
}

type NondetOut struct {
	Kind  string `json:"kind"`
	Val   uint64 `json:"val"`
	Bytes []int  `json:"bytes,omitempty"`
}

type HarnessResult struct {
	Name          string                       `json:"name"`
	Paths         int                          `json:"paths"`
	PathsDone     int                          `json:"paths_completed"`
	Steps         int                          `json:"steps"`
	Obl           map[string]*ObligationResult `json:"-"`
	Reach         map[string]int               `json:"reach"`
	Cuts          map[string]int               `json:"unwind_cuts"`
	Inconclusive  []string                     `json:"inconclusive"`
	Merges        int                          `json:"merged_regions"`
	MergeFails    int                          `json:"merge_fallbacks"`
	Funcs         map[string]bool              `json:"-"`
	Stubs         map[string]int               `json:"stubs"`
	WallS         float64                      `json:"wall_s"`
	Forks         int                          `json:"forks"`
	Samples       []string                     `json:"samples"`
	Cexs          []*Cex                       `json:"-"`
	KnownFindings []string                     `json:"known_findings"`
	pathSigs      map[string]bool
}

type Engine struct {
	prog      *ssa.Program
	solver    *Portfolio
	cfg       *HarnessCfg
	res       *HarnessResult
	work      []*State
	stateSeq  int
	frameSeq  int
	nondetSeq int
	deadline  time.Time
	fnInfo    map[*ssa.Function]*FnInfo
	kf        []KnownFinding
	harness   string
	harnessPkg *ssa.Package
	verbose   bool
	stepLimit int
}

type HarnessCfg struct {
	Name      string   `json:"name"`
	Pkg       string   `json:"pkg"`
	Unwind    int      `json:"unwind"`
	Recursion int      `json:"recursion"`
	Concret   int      `json:"concretize"`
	TimeoutS  int      `json:"timeout_s"`
	MaxPaths  int      `json:"max_paths"`
	NoMerge   bool     `json:"no_merge"`
	Go        string            `json:"go"`    // "skip": go statements are recorded, not run
	Stubs     map[string]string `json:"stubs"` // callee full name -> harness function that replaces it
	Mode      string   `json:"mode"` // closed | open
	Open      *OpenCfg `json:"open,omitempty"`
	Assume    []string `json:"assumptions"`
	Bounds    map[string]interface{} `json:"bounds"`
}

const (
	stCont = iota
	stDone
	stForked
)

func (e *Engine) fnName(fn *ssa.Function) string {
	return fn.String()
}

func site(ins ssa.Instruction) string {
	fn := ins.Parent()
	if fn == nil {
		return "?"
	}
	p := fn.Prog.Fset.Position(ins.Pos())
	name := fn.String()
	if i := strings.LastIndex(name, "/"); i >= 0 {
		name = name[i+1:]
	}
	if p.IsValid() {
		f := p.Filename
		if i := strings.LastIndex(f, "/"); i >= 0 {
			f = f[i+1:]
		}
		return fmt.Sprintf("%s@%s:%d", name, f, p.Line)
	}
	return name
}

func siteFn(ins ssa.Instruction) string {
	fn := ins.Parent()
	if fn == nil {
		return "?"
	}
	name := fn.String()
	if i := strings.LastIndex(name, "/"); i >= 0 {
		name = name[i+1:]
	}
	return name
}

// ---------- obligations ----------

func (e *Engine) obl(id, kind string) *ObligationResult {
	o := e.res.Obl[id]
	if o == nil {
		o = &ObligationResult{ID: id, Kind: kind, kfMatched: map[string]bool{}}
		e.res.Obl[id] = o
	}
	return o
}

// feasible asks whether pc ∧ extra is satisfiable. Unknown counts as feasible (keep the path)
// and is recorded as inconclusive.
func (e *Engine) feasible(st *State, extra ...*Term) bool {
	for _, x := range extra {
		if x.IsFalse() {
			return false
		}
	}
	v, why := e.solver.CheckFeas(st.pc, extra)
	if v == Unknown {
		e.inconclusive("feasibility unknown: " + why)
		return true
	}
	return v == Sat
}

func (e *Engine) inconclusive(msg string) {
	for _, m := range e.res.Inconclusive {
		if m == msg {
			return
		}
	}
	if len(e.res.Inconclusive) < 50 {
		e.res.Inconclusive = append(e.res.Inconclusive, msg)
	}
}

// require checks an obligation: cond must hold in every model of the path condition.
// Returns false if the path cannot continue (cond infeasible).
func (e *Engine) require(st *State, cond *Term, id, kind, where string) bool {
	o := e.obl(id, kind)
	o.Checked++
	if o.Site == "" {
		o.Site = where
	}
	if cond.IsTrue() {
		o.Trivial++
		return true
	}
	neg := Not(cond)
	// verdict first (sliced, all back ends); a model is only asked for when it is sat
	v, _, why := e.solver.Check(st.pc, []*Term{neg}, nil)
	switch v {
	case Unsat:
		return true
	case Unknown:
		o.Unknown++
		e.inconclusive(fmt.Sprintf("obligation %s: solver unknown (%s)", id, why))
		st.assume(cond)
		return true
	}
	want := e.wantTerms(st)
	v2, vals, why2 := e.solver.Check(st.pc, []*Term{neg}, want)
	if v2 == Unsat {
		// the full path condition is unsatisfiable: this path was only kept because an earlier
		// feasibility check was inconclusive (accepted as feasible). It is not a real path.
		e.res.Cuts["infeasible-path-dropped"]++
		return false
	}
	if v2 != Sat {
		// verdict was sat on the slice but no model of the full path condition could be produced
		o.Unknown++
		e.inconclusive(fmt.Sprintf("obligation %s: sat, but no model of the full path condition (%v %s)", id, v2, why2))
		ok := e.feasible(st, cond)
		st.assume(cond)
		return ok
	}
	// sat: a violation, unless it lies entirely inside known-finding regions
	e.reportViolation(st, o, neg, vals, where, "")
	if cond.IsFalse() {
		return false
	}
	ok := e.feasible(st, cond)
	st.assume(cond)
	return ok
}

func (e *Engine) reportViolation(st *State, o *ObligationResult, neg *Term, vals map[int]uint64, where, msg string) {
	// known-finding regions
	extra := []*Term{neg}
	matched := []string{}
	for _, kf := range e.kf {
		if kf.Status != "known" || kf.Obligation != o.ID {
			continue
		}
		if kf.Harness != "" && kf.Harness != e.harness {
			continue
		}
		r := st.regions[kf.Region]
		if kf.Region == "*always*" {
			r = tTrue
		}
		if r == nil {
			continue
		}
		extra = append(extra, Not(r))
		matched = append(matched, kf.ID)
	}
	if len(matched) > 0 {
		want := e.wantTerms(st)
		v, vals2, why := e.solver.Check(st.pc, extra, want)
		if v == Unsat {
			o.KnownOnly++
			for _, m := range matched {
				if !o.kfMatched[m] {
					o.kfMatched[m] = true
					e.res.KnownFindings = append(e.res.KnownFindings, m)
				}
			}
			return
		}
		if v == Unknown {
			o.Unknown++
			e.inconclusive(fmt.Sprintf("obligation %s outside known region: unknown (%s)", o.ID, why))
			return
		}
		vals = vals2
	}
	o.Violated++
	if o.firstCex == nil {
		// try to shrink byte-array lengths for replayability
		vals = e.shrinkModel(st, extra, vals)
		c := e.buildCex(st, o, vals, where, msg, extra)
		o.firstCex = c
		e.res.Cexs = append(e.res.Cexs, c)
	}
}

func (e *Engine) wantTerms(st *State) []*Term {
	var w []*Term
	for _, n := range st.nondets {
		if n.term != nil {
			w = append(w, n.term)
		}
		if n.n != nil {
			w = append(w, n.n)
		}
	}
	names := make([]string, 0, len(st.tags))
	for k := range st.tags {
		names = append(names, k)
	}
	sort.Strings(names)
	for _, k := range names {
		w = append(w, st.tags[k])
	}
	return w
}

func (e *Engine) shrinkModel(st *State, extra []*Term, vals map[int]uint64) map[int]uint64 {
	var lens []*Term
	for _, n := range st.nondets {
		if n.Kind == "bytes" && !n.n.IsConst() {
			lens = append(lens, n.n)
		}
	}
	if len(lens) == 0 {
		return vals
	}
	for _, lim := range []uint64{64, 512, 4096, 1 << 16, 1 << 20, 1 << 24} {
		ok := true
		for _, l := range lens {
			if vals[l.id] > lim {
				ok = false
			}
		}
		if ok {
			return vals
		}
		ex := append([]*Term{}, extra...)
		for _, l := range lens {
			ex = append(ex, Ule(l, BV(lim, 64)))
		}
		v, vals2, _ := e.solver.Check(st.pc, ex, e.wantTerms(st))
		if v == Sat {
			return vals2
		}
	}
	return vals
}

func (e *Engine) buildCex(st *State, o *ObligationResult, vals map[int]uint64, where, msg string, extra []*Term) *Cex {
	c := &Cex{Obligation: o.ID, Kind: o.Kind, Site: where, Harness: e.harness, Msg: msg, Tags: map[string]uint64{}, Open: st.nonReplayable}
	val := func(t *Term) uint64 {
		if t.IsConst() {
			return t.k
		}
		return vals[t.id]
	}
	// byte contents need a second query: ask for the selects of each nondet byte array
	type bq struct {
		idx  int
		n    uint64
		mem  *Mem
		sels []*Term
	}
	var bqs []bq
	for i, n := range st.nondets {
		no := NondetOut{Kind: n.Kind}
		if n.Kind == "bytes" {
			ln := val(n.n)
			no.Val = ln
			if ln > 1<<16 {
				ln = 1 << 16
			}
			q := bq{idx: i, n: ln, mem: n.bytes}
			for k := uint64(0); k < ln; k++ {
				q.sels = append(q.sels, memSelect(n.bytes, BV(k, 64)))
			}
			bqs = append(bqs, q)
		} else {
			no.Val = val(n.term)
		}
		c.Nondets = append(c.Nondets, no)
	}
	for k, t := range st.tags {
		c.Tags[k] = val(t)
	}
	if len(bqs) > 0 {
		// pin the scalar model and ask for the bytes
		var pin []*Term
		for _, n := range st.nondets {
			if n.term != nil && !n.term.IsConst() {
				if n.term.w == 0 {
					pin = append(pin, Eq(n.term, Bool(vals[n.term.id] == 1)))
				} else {
					pin = append(pin, Eq(n.term, BV(vals[n.term.id], n.term.w)))
				}
			}
			if n.n != nil && !n.n.IsConst() {
				pin = append(pin, Eq(n.n, BV(vals[n.n.id], 64)))
			}
		}
		var want []*Term
		for _, q := range bqs {
			want = append(want, q.sels...)
		}
		// the violated condition must stay asserted: it is not available here, so re-derive from o: we
		// rely on the caller having found vals under pc ∧ extra; pinning all scalars keeps the model
		// inside the same region for everything except unpinned bytes, so assert extra again.
		ex := append([]*Term{}, pin...)
		ex = append(ex, extra...)
		v, bv, _ := e.solver.Check(st.pc, ex, want)
		if v == Sat {
			for _, q := range bqs {
				bs := make([]int, len(q.sels))
				for k, s := range q.sels {
					if s.IsConst() {
						bs[k] = int(s.k)
					} else {
						bs[k] = int(bv[s.id])
					}
				}
				c.Nondets[q.idx].Bytes = bs
			}
		} else {
			c.Msg += " [byte model unavailable]"
		}
	}
	c.Path = append(c.Path, st.path...)
	for _, ev := range st.events {
		c.Events = append(c.Events, ev.s)
	}
	if len(st.trace) > 40 {
		c.Trace = append(c.Trace, st.trace[len(st.trace)-40:]...)
	} else {
		c.Trace = append(c.Trace, st.trace...)
	}
	return c
}

// ---------- exploration ----------

func (e *Engine) newFrame(fn *ssa.Function, args []Value, bind []Value) *Frame {
	e.frameSeq++
	f := &Frame{id: e.frameSeq, fn: fn, regs: make(map[ssa.Value]Value, 32), bind: bind}
	for i, p := range fn.Params {
		if i < len(args) {
			f.regs[p] = args[i]
		}
	}
	f.blk = fn.Blocks[0]
	return f
}

func (e *Engine) explore(entry *ssa.Function) {
	st := &State{heap: map[int]*Obj{}, known: map[int]uint64{}, locks: map[string]int{}, tags: map[string]*Term{},
		regions: map[string]*Term{}, globals: map[*ssa.Global]int{}, once: map[string]bool{}, ghost: map[string]*Term{}}
	st.allocSum = BV(0, 64)
	st.allocMax = BV(0, 64)
	if e.cfg.Mode == "open" {
		st.open = newOpenState()
	}
	st.frames = []*Frame{e.newFrame(entry, nil, nil)}
	e.work = []*State{st}
	for len(e.work) > 0 {
		if time.Now().After(e.deadline) {
			e.inconclusive(fmt.Sprintf("time budget exhausted with %d states pending", len(e.work)))
			return
		}
		if e.cfg.MaxPaths > 0 && e.res.Paths >= e.cfg.MaxPaths {
			e.inconclusive(fmt.Sprintf("path budget %d exhausted with %d states pending", e.cfg.MaxPaths, len(e.work)))
			return
		}
		s := e.work[len(e.work)-1]
		e.work = e.work[:len(e.work)-1]
		e.runState(s)
	}
}

func (e *Engine) runState(st *State) {
	defer func() {
		if r := recover(); r != nil {
			if u, ok := r.(unsupported); ok {
				where := ""
				if len(st.frames) > 0 {
					f := st.top()
					if f.ip < len(f.blk.Instrs) {
						where = " at " + site(f.blk.Instrs[f.ip])
					}
				}
				e.inconclusive("unsupported: " + u.msg + where)
				e.res.Paths++
				return
			}
			panic(r)
		}
	}()
	for {
		if st.steps > e.stepLimit {
			e.inconclusive("step limit reached on a path")
			e.res.Paths++
			return
		}
		if st.steps&0x3ff == 0 && time.Now().After(e.deadline) {
			e.inconclusive("time budget exhausted inside a path")
			e.res.Paths++
			return
		}
		status := e.step(st)
		switch status {
		case stDone:
			e.res.Paths++
			if st.finished {
				e.res.PathsDone++
				e.pathEnd(st)
			}
			e.res.Steps += st.steps
			return
		case stForked:
			e.res.Steps += st.steps
			return
		}
	}
}

func (e *Engine) pathEnd(st *State) {
	sig := strings.Join(st.path, ",")
	if f := os.Getenv("GOSYM_PATHS"); f != "" {
		if fh, err := os.OpenFile(f, os.O_APPEND|os.O_CREATE|os.O_WRONLY, 0644); err == nil {
			fh.WriteString(sig + "\n")
			fh.Close()
		}
	}
	if !e.res.pathSigs[sig] {
		e.res.pathSigs[sig] = true
		if len(e.res.Samples) < 5 {
			s := sig
			if len(s) > 300 {
				s = s[:300] + "..."
			}
			e.res.Samples = append(e.res.Samples, fmt.Sprintf("path[%d decisions]: %s", len(st.path), s))
		}
	}
	if st.open != nil {
		e.openPathEnd(st)
	}
}

// armStop: inside a merge arm, arriving at the join block ends the arm (phis are merged later).
func (e *Engine) armStop(f *Frame, target *ssa.BasicBlock) bool {
	if f.stopAt != nil && target == f.stopAt {
		f.prev = f.blk
		f.stopped = true
		return true
	}
	return false
}

// pushFork schedules alternative states.
func (e *Engine) pushFork(st *State) {
	if st.inArm > 0 {
		panic(mergeAbort{"fork inside arm"})
	}
	e.stateSeq++
	st.id = e.stateSeq
	e.work = append(e.work, st)
	e.res.Forks++
}

// branch decides a symbolic condition. It returns the outcome for the current state (true/false)
// and schedules a clone for the other outcome when both are feasible. ok=false: path dead.
// fix, if non-nil, positions the clone (which took the other outcome); otherwise the clone
// re-executes the current instruction, where its path condition now decides the condition.
func (e *Engine) branch(st *State, c *Term, ins ssa.Instruction, label string, fix ...func(o *State, taken bool)) (taken bool, ok bool) {
	if c.IsTrue() {
		return true, true
	}
	if c.IsFalse() {
		return false, true
	}
	canT := e.feasible(st, c)
	canF := true
	if canT {
		canF = e.feasible(st, Not(c))
	}
	switch {
	case canT && canF:
		o := st.clone()
		o.assume(Not(c))
		o.path = append(o.path, label+"=F")
		if len(fix) > 0 && fix[0] != nil {
			fix[0](o, false)
		}
		e.pushFork(o)
		st.assume(c)
		st.path = append(st.path, label+"=T")
		return true, true
	case canT:
		return true, true
	case canF:
		return false, true
	}
	return false, false
}

// concretize returns a concrete value for t, forking over the feasible values (bounded).
// ok=false means the current state was replaced by forks and must be abandoned.
func (e *Engine) concretize(st *State, t *Term, what string) (uint64, bool) {
	if t.IsConst() {
		return t.k, true
	}
	if v, ok := st.known[t.id]; ok {
		return v, true
	}
	limit := e.cfg.Concret
	if limit == 0 {
		limit = 8
	}
	var vals []uint64
	var excl []*Term
	for len(vals) <= limit {
		v, m, why := e.solver.Check(st.pc, excl, []*Term{t})
		if v == Unknown {
			e.inconclusive("concretize " + what + ": unknown: " + why)
			break
		}
		if v == Unsat {
			break
		}
		x := m[t.id]
		vals = append(vals, x)
		excl = append(excl, Not(Eq(t, BV(x, t.w))))
	}
	if len(vals) > limit {
		vals = vals[:limit]
		e.res.Cuts["concretize:"+what]++
		st.cuts = append(st.cuts, "concretize:"+what)
	}
	if len(vals) == 0 {
		st.dead = true
		return 0, false
	}
	sort.Slice(vals, func(i, j int) bool { return vals[i] < vals[j] })
	for i := len(vals) - 1; i >= 1; i-- {
		o := st.clone()
		o.assume(Eq(t, BV(vals[i], t.w)))
		o.known[t.id] = vals[i]
		o.path = append(o.path, fmt.Sprintf("%s=%d", what, vals[i]))
		e.pushFork(o)
	}
	st.assume(Eq(t, BV(vals[0], t.w)))
	st.known[t.id] = vals[0]
	st.path = append(st.path, fmt.Sprintf("%s=%d", what, vals[0]))
	return vals[0], true
}

// ---------- operand evaluation ----------

func (e *Engine) constValue(c *ssa.Const) Value {
	t := c.Type()
	if c.Value == nil {
		return zeroValue(t)
	}
	switch u := t.Underlying().(type) {
	case *types.Basic:
		switch {
		case u.Info()&types.IsBoolean != 0:
			return Bool(constant.BoolVal(c.Value))
		case u.Info()&types.IsString != 0:
			return &StrVal{conc: true, s: constant.StringVal(c.Value)}
		case u.Info()&types.IsFloat != 0:
			f, _ := constant.Float64Val(c.Value)
			if u.Kind() == types.Float32 {
				return BV(uint64(math.Float32bits(float32(f))), 32)
			}
			return BV(math.Float64bits(f), 64)
		case u.Info()&types.IsInteger != 0:
			w, _, _ := basicWidth(u)
			if i, ok := constant.Int64Val(c.Value); ok {
				return BV(uint64(i), w)
			}
			if i, ok := constant.Uint64Val(c.Value); ok {
				return BV(i, w)
			}
		}
	}
	unsupp("constant %s of type %s", c, t)
	return nil
}

func (e *Engine) eval(st *State, f *Frame, v ssa.Value) Value {
	switch x := v.(type) {
	case *ssa.Const:
		return e.constValue(x)
	case *ssa.Global:
		return e.globalPtr(st, x)
	case *ssa.Function:
		return &FuncVal{fn: x}
	case *ssa.Builtin:
		return &FuncVal{builtin: x.Name()}
	case *ssa.FreeVar:
		for i, fv := range f.fn.FreeVars {
			if fv == x {
				return f.bind[i]
			}
		}
		panic("free var not found")
	}
	r, ok := f.regs[v]
	if !ok {
		panic(fmt.Sprintf("register %s undefined in %s", v.Name(), f.fn))
	}
	return r
}

func (e *Engine) globalPtr(st *State, g *ssa.Global) *PtrVal {
	if id, ok := st.globals[g]; ok {
		return &PtrVal{obj: id}
	}
	elem := g.Type().(*types.Pointer).Elem()
	var v Value
	if types.Identical(elem, types.Universe.Lookup("error").Type()) {
		// package-level error sentinel (io.EOF ...): a unique opaque error object
		id := st.newObj(&StructVal{f: []Value{&StrVal{conc: true, s: g.Name()}}}, nil, "errobj:"+g.String())
		v = &IfaceVal{t: sentinelErrType(g), v: &PtrVal{obj: id}}
	} else if g.String() == "context.closedchan" {
		cid := st.newObj(&ChanContent{closed: true}, nil, "closedchan")
		v = &ChanVal{obj: cid}
	} else if iv, ok := e.globalInit(st, g); ok {
		v = iv
	} else {
		v = zeroValue(elem)
	}
	id := st.newObj(v, elem, "global:"+g.String())
	st.globals[g] = id
	return &PtrVal{obj: id}
}

// sentinel error globals get a synthetic named pointer type so that type switches on them fail
// for every real type and identity comparison works.
var sentinelTypes = map[string]types.Type{}

func sentinelErrType(g *ssa.Global) types.Type {
	k := g.String()
	if t, ok := sentinelTypes[k]; ok {
		return t
	}
	tn := types.NewTypeName(token.NoPos, g.Pkg.Pkg, "sentinel$"+g.Name(), nil)
	named := types.NewNamed(tn, types.NewStruct(nil, nil), nil)
	t := types.NewPointer(named)
	sentinelTypes[k] = t
	return t
}

// ---------- the step function ----------

func (e *Engine) step(st *State) int {
	if st.panic_ != nil {
		return e.unwind(st)
	}
	f := st.top()
	ins := f.blk.Instrs[f.ip]
	st.steps++
	switch x := ins.(type) {
	case *ssa.DebugRef:
		f.ip++
	case *ssa.Jump:
		if e.armStop(f, f.blk.Succs[0]) {
			return stCont
		}
		if handled, alive := e.tryFillLoop(st, f, f.blk, f.blk.Succs[0]); handled {
			if !alive {
				return stDone
			}
			return stCont
		}
		e.gotoBlock(st, f, f.blk.Succs[0])
	case *ssa.If:
		c := e.eval(st, f, x.Cond).(*Term)
		if !c.IsConst() {
			if r, handled := e.tryMerge(st, f, x, c); handled {
				return r
			}
			if !e.unwindOK(st, f, x, c) {
				return stDone
			}
		}
		taken, ok := e.branch(st, c, x, brLabel(x), func(o *State, _ bool) {
			of := o.top()
			e.gotoBlock(o, of, of.blk.Succs[1])
		})
		if !ok {
			return stDone
		}
		tgt := f.blk.Succs[1]
		if taken {
			tgt = f.blk.Succs[0]
		}
		if e.armStop(f, tgt) {
			return stCont
		}
		e.gotoBlock(st, f, tgt)
	case *ssa.Return:
		return e.doReturn(st, f, x)
	case *ssa.Store:
		p := e.eval(st, f, x.Addr).(*PtrVal)
		if !e.nilCheck(st, p, ins) {
			return stDone
		}
		st.store(p, e.eval(st, f, x.Val))
		f.ip++
	case *ssa.Call:
		return e.doCall(st, f, x, x.Common(), x)
	case *ssa.Defer:
		fn, args, r := e.resolveCallee(st, f, x.Common(), x)
		if r != stCont {
			return r
		}
		f.defers = append(f.defers, &Deferred{fn: fn, args: args, ins: x})
		f.ip++
	case *ssa.Go:
		return e.doGo(st, f, x)
	case *ssa.RunDefers:
		if len(f.defers) > 0 {
			d := f.defers[len(f.defers)-1]
			f.defers = f.defers[:len(f.defers)-1]
			f.inDefers = true
			return e.invoke(st, d.fn, d.args, nil, d.ins, true)
		}
		f.inDefers = false
		f.ip++
	case *ssa.Panic:
		v := e.eval(st, f, x.X)
		st.panic_ = &PanicInfo{val: v, kind: "explicit", site: site(x), msg: e.panicMsg(st, v)}
	case *ssa.MapUpdate:
		return e.doMapUpdate(st, f, x)
	case *ssa.Send:
		return e.doSend(st, f, x)
	case ssa.Value:
		return e.stepValue(st, f, x, ins)
	default:
		unsupp("instruction %T", ins)
	}
	return stCont
}

func brLabel(x *ssa.If) string {
	p := x.Parent().Prog.Fset.Position(x.Cond.Pos())
	if !p.IsValid() {
		p = x.Parent().Prog.Fset.Position(x.Pos())
	}
	fn := x.Parent().Name()
	return fmt.Sprintf("%s:%d.b%d", fn, p.Line, x.Block().Index)
}

func (e *Engine) gotoBlock(st *State, f *Frame, b *ssa.BasicBlock) {
	f.prev = f.blk
	f.blk = b
	f.ip = 0
	// phis are evaluated simultaneously
	var vals []Value
	var phis []*ssa.Phi
	for _, ins := range b.Instrs {
		phi, ok := ins.(*ssa.Phi)
		if !ok {
			break
		}
		for i, p := range b.Preds {
			if p == f.prev {
				vals = append(vals, e.eval(st, f, phi.Edges[i]))
				break
			}
		}
		phis = append(phis, phi)
	}
	for i, phi := range phis {
		f.regs[phi] = vals[i]
	}
	f.ip = len(phis)
}

func (e *Engine) panicMsg(st *State, v Value) string {
	if iv, ok := v.(*IfaceVal); ok && iv.t != nil {
		if s, ok := iv.v.(*StrVal); ok && s.conc {
			return s.s
		}
		return "value of type " + iv.t.String()
	}
	return ""
}

func (e *Engine) nilCheck(st *State, p *PtrVal, ins ssa.Instruction) bool {
	if p.obj != 0 {
		return true
	}
	if st.open != nil {
		// nil dereference of an unknown pointer is not reported in open mode: drop the path
		e.res.Cuts["open:nil-deref-dropped"]++
		return false
	}
	o := e.obl("nilderef@"+siteFn(ins), "nil")
	o.Checked++
	e.reportViolation(st, o, tTrue, e.modelOf(st), site(ins), "nil pointer dereference")
	return false
}

func (e *Engine) modelOf(st *State) map[int]uint64 {
	_, vals, _ := e.solver.Check(st.pc, nil, e.wantTerms(st))
	if vals == nil {
		vals = map[int]uint64{}
	}
	return vals
}

// ---------- returns, calls, panics ----------

func (e *Engine) doReturn(st *State, f *Frame, x *ssa.Return) int {
	var res Value
	switch len(x.Results) {
	case 0:
	case 1:
		res = e.eval(st, f, x.Results[0])
	default:
		t := &TupleVal{}
		for _, r := range x.Results {
			t.e = append(t.e, e.eval(st, f, r))
		}
		res = t
	}
	return e.popFrame(st, f, res)
}

func (e *Engine) popFrame(st *State, f *Frame, res Value) int {
	st.frames = st.frames[:len(st.frames)-1]
	if len(st.frames) == 0 {
		if st.par != nil {
			return e.parThreadDone(st)
		}
		st.finished = true
		return stDone
	}
	c := st.top()
	if f.goFrame {
		// a deferred goroutine that was run while its spawner waited has finished: the spawner's
		// blocking instruction re-executes
		st.goDepth--
		st.goStack = st.goStack[:len(st.goStack)-1]
		st.epoch++ // whoever waits for this goroutine's effects may look again
		return stCont
	}
	if f.catch {
		// vPanics(f) returned normally
		ci := c.blk.Instrs[c.ip].(*ssa.Call)
		c.regs[ci] = tFalse
		c.ip++
		return stCont
	}
	if f.isDeferd {
		return e.afterDeferred(st, c)
	}
	if f.resultTo != nil {
		c.regs[f.resultTo] = res
	}
	c.ip++
	return stCont
}

// afterDeferred continues in frame c after one of its deferred calls finished.
func (e *Engine) afterDeferred(st *State, c *Frame) int {
	if c.panicking != nil {
		// still unwinding: re-raise
		st.panic_ = c.panicking
		c.panicking = nil
		return stCont
	}
	if c.recovered {
		if len(c.defers) > 0 {
			d := c.defers[len(c.defers)-1]
			c.defers = c.defers[:len(c.defers)-1]
			n := len(st.frames)
			r := e.invoke(st, d.fn, d.args, nil, d.ins, true)
			if r != stCont {
				return r
			}
			if len(st.frames) == n {
				return e.afterDeferred(st, c)
			}
			return stCont
		}
		c.recovered = false
		if c.fn.Recover != nil {
			c.prev = c.blk
			c.blk = c.fn.Recover
			c.ip = 0
			return stCont
		}
		return e.popFrame(st, c, zeroResults(c.fn))
	}
	// normal RunDefers: the instruction re-executes
	return stCont
}

// unwind handles a pending panic in the top frame.
func (e *Engine) unwind(st *State) int {
	f := st.top()
	if f.panicking != nil {
		// a deferred call of f panicked itself: the new panic replaces the old one
		f.panicking = nil
	}
	if len(f.defers) > 0 {
		d := f.defers[len(f.defers)-1]
		f.defers = f.defers[:len(f.defers)-1]
		f.panicking = st.panic_
		st.panic_ = nil
		n := len(st.frames)
		r := e.invoke(st, d.fn, d.args, nil, d.ins, true)
		if r != stCont {
			return r
		}
		if len(st.frames) == n {
			// executed inline
			return e.afterDeferred(st, f)
		}
		return stCont
	}
	// no more defers: pop the frame and continue in the caller
	st.frames = st.frames[:len(st.frames)-1]
	if f.catch {
		c := st.top()
		ci := c.blk.Instrs[c.ip].(*ssa.Call)
		c.regs[ci] = tTrue
		c.ip++
		st.panic_ = nil
		return stCont
	}
	if len(st.frames) == 0 {
		// uncaught panic reaches the harness top
		p := st.panic_
		if st.open != nil {
			e.openPanicEnd(st, p)
			st.finished = true
			return stDone
		}
		fnpart := p.site
		if i := strings.Index(fnpart, "@"); i >= 0 {
			fnpart = fnpart[:i]
		}
		o := e.obl("panic@"+fnpart, "panic")
		o.Checked++
		e.reportViolation(st, o, tTrue, e.modelOf(st), p.site, "panic: "+p.msg)
		st.finished = true
		return stDone
	}
	return stCont
}

func zeroResults(fn *ssa.Function) Value {
	r := fn.Signature.Results()
	switch r.Len() {
	case 0:
		return nil
	case 1:
		return zeroValue(r.At(0).Type())
	}
	return zeroValue(r)
}

// resolveCallee determines the function and full argument list of a call.
func (e *Engine) resolveCallee(st *State, f *Frame, c *ssa.CallCommon, ins ssa.Instruction) (*FuncVal, []Value, int) {
	var args []Value
	if c.IsInvoke() {
		recv := e.eval(st, f, c.Value).(*IfaceVal)
		if recv.t == nil {
			if st.open != nil {
				e.res.Cuts["open:nil-iface-dropped"]++
				return nil, nil, stDone
			}
			o := e.obl("nilderef@"+siteFn(ins), "nil")
			o.Checked++
			e.reportViolation(st, o, tTrue, e.modelOf(st), site(ins), "method call on nil interface")
			return nil, nil, stDone
		}
		for _, a := range c.Args {
			args = append(args, e.eval(st, f, a))
		}
		if lz, ok := recv.v.(*LazyIface); ok {
			return &FuncVal{builtin: "$lazyinvoke:" + c.Method.FullName(), recv: lz}, args, stCont
		}
		if nt, ok := recv.t.(*types.Pointer); ok && c.Method.Name() == "Error" {
			if n, ok := nt.Elem().(*types.Named); ok && strings.HasPrefix(n.Obj().Name(), "sentinel$") {
				// Error() of a package-level error sentinel (context.Canceled ...): an opaque string
				return &FuncVal{builtin: "$sentinelError"}, args, stCont
			}
		}
		fn := e.prog.LookupMethod(recv.t, c.Method.Pkg(), c.Method.Name())
		if fn == nil {
			unsupp("no method %s on %s", c.Method.Name(), recv.t)
		}
		args = append([]Value{recv.v}, args...)
		return &FuncVal{fn: fn}, args, stCont
	}
	for _, a := range c.Args {
		args = append(args, e.eval(st, f, a))
	}
	switch v := c.Value.(type) {
	case *ssa.Function:
		return &FuncVal{fn: v}, args, stCont
	case *ssa.Builtin:
		return &FuncVal{builtin: v.Name()}, args, stCont
	}
	fv, ok := e.eval(st, f, c.Value).(*FuncVal)
	if !ok {
		unsupp("call of non-function value %T", e.eval(st, f, c.Value))
	}
	if fv.nilf || (fv.fn == nil && fv.builtin == "") {
		if st.open != nil {
			e.res.Cuts["open:nil-func-dropped"]++
			return nil, nil, stDone
		}
		o := e.obl("nilderef@"+siteFn(ins), "nil")
		o.Checked++
		e.reportViolation(st, o, tTrue, e.modelOf(st), site(ins), "call of nil function")
		return nil, nil, stDone
	}
	return fv, args, stCont
}

func (e *Engine) doCall(st *State, f *Frame, resultTo ssa.Value, c *ssa.CallCommon, ins ssa.Instruction) int {
	fn, args, r := e.resolveCallee(st, f, c, ins)
	if r != stCont {
		return r
	}
	return e.invoke(st, fn, args, resultTo, ins, false)
}

// invoke performs a call. For deferred calls the caller's ip is not advanced.
func (e *Engine) invoke(st *State, fv *FuncVal, args []Value, resultTo ssa.Value, ins ssa.Instruction, deferred bool) int {
	f := st.top()
	setResult := func(v Value) int {
		if !deferred {
			if resultTo != nil {
				f.regs[resultTo] = v
			}
			f.ip++
		}
		return stCont
	}
	if fv.builtin != "" {
		if strings.HasPrefix(fv.builtin, "$lazyinvoke:") {
			return e.lazyInvoke(st, fv, args, ins, setResult)
		}
		if fv.builtin == "$sentinelError" {
			return setResult(e.opaqueStr(st, "sentinel-error"))
		}
		return e.doBuiltin(st, f, fv.builtin, args, ins, setResult)
	}
	fn := fv.fn
	if len(e.cfg.Stubs) > 0 {
		if repl, ok := e.cfg.Stubs[fn.String()]; ok {
			if pkg := e.harnessPkg; pkg != nil {
				if rf := pkg.Func(repl); rf != nil {
					e.res.Stubs["stub "+fn.String()+" -> "+repl]++
					fn = rf
					fv = &FuncVal{fn: rf}
				}
			}
		}
	}
	if r, handled := e.intrinsic(st, f, fn, args, ins, setResult, resultTo, deferred); handled {
		return r
	}
	if st.open != nil {
		if r, handled := e.openCall(st, f, fn, fv, args, ins, setResult); handled {
			return r
		}
	}
	if fn.Blocks == nil {
		unsupp("call to function without body: %s", fn)
	}
	// recursion bound
	depth := 0
	for _, fr := range st.frames {
		if fr.fn == fn {
			depth++
		}
	}
	rb := e.cfg.Recursion
	if rb == 0 {
		rb = 4
	}
	if depth > rb {
		e.res.Cuts["recursion:"+fn.Name()]++
		return stDone
	}
	if len(st.frames) > 200 {
		e.res.Cuts["stack-depth"]++
		return stDone
	}
	e.res.Funcs[fn.String()] = true
	nf := e.newFrame(fn, args, fv.bind)
	nf.resultTo = resultTo
	if deferred {
		nf.isDeferd = true
		nf.resultTo = nil
	}
	st.frames = append(st.frames, nf)
	if e.verbose {
		st.trace = append(st.trace, strings.Repeat(" ", len(st.frames))+fn.String())
	}
	return stCont
}

func (e *Engine) doGo(st *State, f *Frame, x *ssa.Go) int {
	if st.open != nil {
		return e.openGo(st, f, x)
	}
	if e.cfg.Go == "skip" {
		// the spawned goroutine is not run: the harness analyses one goroutine at a time (stated
		// in the check's assumptions); the spawn is recorded as an event
		name := "go"
		if fn := x.Common().StaticCallee(); fn != nil {
			name = "go " + fn.String()
		}
		st.events = append(st.events, Event{name: "go", s: name})
		k := "ev:go"
		cur := st.ghost[k]
		if cur == nil {
			cur = c64(0)
		}
		st.ghost[k] = Add(cur, c64(1))
		e.res.Stubs["go statement deferred ("+siteFn(x)+")"]++
		// the goroutine is not run now; it is run (one admissible schedule) if and when the spawning
		// goroutine has to wait for something (see blocked)
		if fv, args, r := e.resolveCallee(st, f, x.Common(), x); r == stCont && fv != nil && fv.fn != nil {
			st.pendingGo = append(st.pendingGo[:len(st.pendingGo):len(st.pendingGo)], &Deferred{fn: fv, args: args, ins: x})
		}
		f.ip++
		return stCont
	}
	unsupp("go statement in closed mode")
	return stDone
}

// unwindOK enforces the loop unwinding bound on symbolic branches.
func (e *Engine) unwindOK(st *State, f *Frame, x *ssa.If, c *Term) bool {
	k := e.cfg.Unwind
	if k == 0 {
		k = 8
	}
	if f.forks == nil {
		f.forks = map[ssa.Instruction]int{}
	}
	info := e.info(f.fn)
	if !info.inLoop[f.blk.Index] {
		return true
	}
	f.forks[x]++
	if f.forks[x] <= k {
		return true
	}
	// bound exceeded: keep only the loop-exit successor if one exists
	s0 := info.reaches(f.blk.Succs[0], f.blk)
	s1 := info.reaches(f.blk.Succs[1], f.blk)
	key := "loop:" + site(x)
	switch {
	case s0 && !s1:
		// exit is the false branch
		if e.feasible(st, c) {
			e.res.Cuts[key]++
		}
		st.assume(Not(c))
		if !e.feasible(st) {
			return false
		}
		return true
	case s1 && !s0:
		if e.feasible(st, Not(c)) {
			e.res.Cuts[key]++
		}
		st.assume(c)
		if !e.feasible(st) {
			return false
		}
		return true
	}
	e.res.Cuts[key]++
	return false
}

package main

// Runtime values, byte memory and heap of the symbolic executor.

import (
	"fmt"
	"go/types"
	"sort"

	"golang.org/x/tools/go/ssa"
)

type Value interface{}

type StructVal struct{ f []Value }
type ArrayVal struct{ e []Value }
type TupleVal struct{ e []Value }

// BytesVal is the content of a byte array (backing store of []byte, [N]byte, strings).
type BytesVal struct {
	mem *Mem
	n   *Term // length of the array, 64-bit
}

type PtrVal struct {
	obj  int   // 0 = nil
	path []int // concrete field/element steps from the object's root value
	idx  *Term // non-nil: address of byte idx inside the BytesVal at (obj,path)
	fn   *FuncVal
}

type SliceVal struct {
	obj           int // 0 = nil slice
	path          []int
	off, len, cap *Term
}

type StrVal struct {
	conc bool
	s    string
	mem  *Mem
	off  *Term
	n    *Term
}

type IfaceVal struct {
	t types.Type // nil = nil interface
	v Value
}

type FuncVal struct {
	fn      *ssa.Function
	bind    []Value
	builtin string
	nilf    bool
	// bound method closure on interface (rare)
	recv Value
}

type MapVal struct{ obj int }
type ChanVal struct{ obj int }

type MapEntry struct {
	k, v Value
}
type MapContent struct {
	entries []MapEntry
	lazy    bool
}
type ChanContent struct {
	closed bool
	buf    []Value
	capN   int
	lazy   bool
	state  *Term // lazy channels: symbolic closed flag
	havoc  bool  // asynchronous event: each observation forks into fired / not yet
}

// ---- byte memory ----

type MemKind uint8

const (
	MBase MemKind = iota
	MZero
	MConst
	MStore
	MCopy
	MFill
	MIte
	MPages // stores at concrete indexes, kept in copy-on-write pages of 64 bytes over prev
)

type memPage [64]*Term

type Mem struct {
	kind MemKind
	name string // MBase
	data []byte // MConst
	prev *Mem
	idx  *Term // MStore index; MCopy/MFill dst offset
	val  *Term // MStore value (8 bit); MFill value
	n    *Term // MCopy/MFill length
	src  *Mem  // MCopy
	soff *Term // MCopy source offset
	c    *Term // MIte
	m2   *Mem  // MIte else
	dep  int
	pages map[uint64]*memPage // MPages
	npg   int                 // number of stored entries (MPages)
}

var memZero = &Mem{kind: MZero}
var memSeq int

func newBaseMem(hint string) *Mem {
	memSeq++
	return &Mem{kind: MBase, name: fmt.Sprintf("mem%d_%s", memSeq, hint)}
}

func constMem(b []byte) *Mem { return &Mem{kind: MConst, data: b} }

func c64(v int64) *Term { return BV(uint64(v), 64) }

func memStore(m *Mem, idx, val *Term) *Mem {
	if idx.IsConst() {
		pn, po := idx.k>>6, idx.k&63
		var nm *Mem
		if m.kind == MPages {
			nm = &Mem{kind: MPages, prev: m.prev, pages: make(map[uint64]*memPage, len(m.pages)+1), dep: m.dep, npg: m.npg}
			for k, v := range m.pages {
				nm.pages[k] = v
			}
		} else {
			nm = &Mem{kind: MPages, prev: m, pages: map[uint64]*memPage{}, dep: m.dep + 1}
		}
		var pg memPage
		if old := nm.pages[pn]; old != nil {
			pg = *old
		}
		if pg[po] == nil {
			nm.npg++
		}
		pg[po] = val
		nm.pages[pn] = &pg
		return nm
	}
	// overwrite of the same concrete index directly on top: drop the older one
	if m.kind == MStore && m.idx == idx {
		return &Mem{kind: MStore, prev: m.prev, idx: idx, val: val, dep: m.dep}
	}
	return &Mem{kind: MStore, prev: m, idx: idx, val: val, dep: m.dep + 1}
}

func memCopy(m *Mem, dst, n *Term, src *Mem, soff *Term) *Mem {
	if n.IsConst() && n.k == 0 {
		return m
	}
	if n.IsConst() && n.k <= 16 {
		// small concrete copies become stores (keeps select expansion simple)
		vals := make([]*Term, n.k)
		for i := uint64(0); i < n.k; i++ {
			vals[i] = memSelect(src, Add(soff, BV(i, 64)))
		}
		for i := uint64(0); i < n.k; i++ {
			m = memStore(m, Add(dst, BV(i, 64)), vals[i])
		}
		return m
	}
	return &Mem{kind: MCopy, prev: m, idx: dst, n: n, src: src, soff: soff, dep: m.dep + 1}
}

func memFill(m *Mem, dst, n *Term, val *Term) *Mem {
	if n.IsConst() && n.k == 0 {
		return m
	}
	if n.IsConst() && n.k <= 16 {
		for i := uint64(0); i < n.k; i++ {
			m = memStore(m, Add(dst, BV(i, 64)), val)
		}
		return m
	}
	return &Mem{kind: MFill, prev: m, idx: dst, n: n, val: val, dep: m.dep + 1}
}

func memIte(c *Term, a, b *Mem) *Mem {
	if c.IsTrue() || a == b {
		return a
	}
	if c.IsFalse() {
		return b
	}
	d := a.dep
	if b.dep > d {
		d = b.dep
	}
	return &Mem{kind: MIte, c: c, prev: a, m2: b, dep: d + 1}
}

// inRange builds dst <= k < dst+n over non-negative 64-bit ints (no wrap: offsets and lengths
// are Go ints bounded by object sizes).
func inRange(k, dst, n *Term) *Term {
	return And(Ule(dst, k), Ult(k, Add(dst, n)))
}

func memSelect(m *Mem, k *Term) *Term {
	// iterative walk building nested ites from the top of the log downwards
	type pend struct {
		c *Term
		v *Term
	}
	var ps []pend
	var res *Term
loop:
	for {
		switch m.kind {
		case MBase:
			res = Select(m.name, k)
			break loop
		case MZero:
			res = BV(0, 8)
			break loop
		case MConst:
			if k.IsConst() {
				if k.k < uint64(len(m.data)) {
					res = BV(uint64(m.data[k.k]), 8)
				} else {
					res = BV(0, 8)
				}
				break loop
			}
			// symbolic index into constant data: ite chain (data is small: string constants)
			res = BV(0, 8)
			for i := len(m.data) - 1; i >= 0; i-- {
				res = Ite(Eq(k, BV(uint64(i), 64)), BV(uint64(m.data[i]), 8), res)
			}
			break loop
		case MPages:
			if k.IsConst() {
				if pg := m.pages[k.k>>6]; pg != nil && pg[k.k&63] != nil {
					res = pg[k.k&63]
					break loop
				}
				m = m.prev
				continue
			}
			// symbolic index: every stored entry is a candidate
			pns := make([]uint64, 0, len(m.pages))
			for pn := range m.pages {
				pns = append(pns, pn)
			}
			sort.Slice(pns, func(i, j int) bool { return pns[i] < pns[j] })
			for _, pn := range pns {
				pg := m.pages[pn]
				for po := 0; po < 64; po++ {
					if pg[po] != nil {
						c := Eq(BV(pn<<6|uint64(po), 64), k)
						if !c.IsFalse() {
							ps = append(ps, pend{c, pg[po]})
						}
					}
				}
			}
			m = m.prev
		case MStore:
			c := Eq(m.idx, k)
			if c.IsTrue() {
				res = m.val
				break loop
			}
			if !c.IsFalse() {
				ps = append(ps, pend{c, m.val})
			}
			m = m.prev
		case MFill:
			c := inRange(k, m.idx, m.n)
			if c.IsTrue() {
				res = m.val
				break loop
			}
			if !c.IsFalse() {
				ps = append(ps, pend{c, m.val})
			}
			m = m.prev
		case MCopy:
			c := inRange(k, m.idx, m.n)
			if c.IsFalse() {
				m = m.prev
				continue
			}
			v := memSelect(m.src, Add(Sub(k, m.idx), m.soff))
			if c.IsTrue() {
				res = v
				break loop
			}
			ps = append(ps, pend{c, v})
			m = m.prev
		case MIte:
			res = Ite(m.c, memSelect(m.prev, k), memSelect(m.m2, k))
			break loop
		}
	}
	for i := len(ps) - 1; i >= 0; i-- {
		res = Ite(ps[i].c, ps[i].v, res)
	}
	return res
}

// ---- heap ----

type Obj struct {
	val  Value
	typ  types.Type
	lazy *LazyInfo
	name string
}

type LazyInfo struct {
	// materialised marks which paths were already instantiated (open mode)
	seen map[string]bool
}

func pathKey(p []int) string {
	s := ""
	for _, x := range p {
		s += fmt.Sprintf("/%d", x)
	}
	return s
}

func appendPath(p []int, x ...int) []int {
	out := make([]int, 0, len(p)+len(x))
	out = append(out, p...)
	return append(out, x...)
}

func getAt(v Value, path []int) Value {
	for _, i := range path {
		switch x := v.(type) {
		case *StructVal:
			v = x.f[i]
		case *ArrayVal:
			v = x.e[i]
		default:
			panic(fmt.Sprintf("getAt: cannot step %d into %T", i, v))
		}
	}
	return v
}

func setAt(v Value, path []int, nv Value) Value {
	if len(path) == 0 {
		return nv
	}
	i := path[0]
	switch x := v.(type) {
	case *StructVal:
		f := make([]Value, len(x.f))
		copy(f, x.f)
		f[i] = setAt(x.f[i], path[1:], nv)
		return &StructVal{f}
	case *ArrayVal:
		e := make([]Value, len(x.e))
		copy(e, x.e)
		e[i] = setAt(x.e[i], path[1:], nv)
		return &ArrayVal{e}
	}
	panic(fmt.Sprintf("setAt: cannot step %d into %T", i, v))
}

func isByte(t types.Type) bool {
	b, ok := t.Underlying().(*types.Basic)
	return ok && (b.Kind() == types.Uint8 || b.Kind() == types.Byte)
}

func basicWidth(b *types.Basic) (w uint8, signed bool, ok bool) {
	switch b.Kind() {
	case types.Bool, types.UntypedBool:
		return 0, false, true
	case types.Int8:
		return 8, true, true
	case types.Uint8:
		return 8, false, true
	case types.Int16:
		return 16, true, true
	case types.Uint16:
		return 16, false, true
	case types.Int32, types.UntypedRune:
		return 32, true, true
	case types.Uint32:
		return 32, false, true
	case types.Int, types.Int64, types.UntypedInt:
		return 64, true, true
	case types.Uint, types.Uint64, types.Uintptr:
		return 64, false, true
	case types.Float32:
		return 32, false, true
	case types.Float64, types.UntypedFloat:
		return 64, false, true
	}
	return 0, false, false
}

func isFloat(t types.Type) bool {
	b, ok := t.Underlying().(*types.Basic)
	return ok && b.Info()&types.IsFloat != 0
}

func isSigned(t types.Type) bool {
	b, ok := t.Underlying().(*types.Basic)
	if !ok {
		return false
	}
	_, s, _ := basicWidth(b)
	return s
}

func typeWidth(t types.Type) uint8 {
	b, ok := t.Underlying().(*types.Basic)
	if !ok {
		panic(fmt.Sprintf("typeWidth of %s", t))
	}
	w, _, ok := basicWidth(b)
	if !ok {
		panic(fmt.Sprintf("typeWidth of %s", t))
	}
	return w
}

type unsupported struct{ msg string }

func unsupp(format string, args ...interface{}) {
	panic(unsupported{fmt.Sprintf(format, args...)})
}

func zeroValue(t types.Type) Value {
	switch u := t.Underlying().(type) {
	case *types.Basic:
		if u.Kind() == types.String || u.Kind() == types.UntypedString {
			return &StrVal{conc: true}
		}
		if u.Kind() == types.UnsafePointer {
			return &PtrVal{}
		}
		if u.Kind() == types.UntypedNil {
			return nil
		}
		w, _, ok := basicWidth(u)
		if !ok {
			unsupp("zero value of basic type %s", t)
		}
		if w == 0 {
			return tFalse
		}
		return BV(0, w)
	case *types.Pointer:
		return &PtrVal{}
	case *types.Slice:
		return &SliceVal{}
	case *types.Map:
		return &MapVal{}
	case *types.Chan:
		return &ChanVal{}
	case *types.Signature:
		return &FuncVal{nilf: true}
	case *types.Interface:
		return &IfaceVal{}
	case *types.Struct:
		f := make([]Value, u.NumFields())
		for i := range f {
			f[i] = zeroValue(u.Field(i).Type())
		}
		return &StructVal{f}
	case *types.Array:
		if isByte(u.Elem()) {
			return &BytesVal{mem: memZero, n: c64(u.Len())}
		}
		e := make([]Value, u.Len())
		for i := range e {
			e[i] = zeroValue(u.Elem())
		}
		return &ArrayVal{e}
	case *types.Tuple:
		e := make([]Value, u.Len())
		for i := range e {
			e[i] = zeroValue(u.At(i).Type())
		}
		return &TupleVal{e}
	}
	unsupp("zero value of %s", t)
	return nil
}

package main

// Channels and select for a single-threaded executor. A goroutine that would block forever ends
// the path ("blocked"); being blocked while holding a mutex is an obligation failure. Havoc
// channels (harness intrinsic vHavocChan) model asynchronous events such as context cancellation:
// every observation forks into "closed from now on" and "not yet".

import (
	"fmt"
	"go/types"

	"golang.org/x/tools/go/ssa"
)

func (e *Engine) chanContent(st *State, ch *ChanVal) *ChanContent {
	return st.heap[ch.obj].val.(*ChanContent)
}

func (e *Engine) setChan(st *State, ch *ChanVal, c *ChanContent) {
	o := *st.heap[ch.obj]
	o.val = c
	st.heap[ch.obj] = &o
}

func (e *Engine) heldLocks(st *State) []string {
	var out []string
	for k, n := range st.locks {
		if n > 0 && !st.heldByOther(k) {
			out = append(out, k)
		}
	}
	return out
}

// blocked ends the path: the goroutine waits forever.
func (e *Engine) blocked(st *State, what string, ins ssa.Instruction) int {
	if st.goDepth > 0 {
		// a goroutine that was started while its spawner waited has to wait itself: it is parked and
		// the goroutine below it on the stack re-executes its own blocking instruction
		idx := len(st.frames) - 1
		for idx >= 0 && !st.frames[idx].goFrame {
			idx--
		}
		if idx <= 0 {
			unsupp("goroutine frame not found")
		}
		pk := &Parked{id: st.tid(), frames: append([]*Frame(nil), st.frames[idx:]...), epoch: st.epoch, what: what}
		st.parked = append(st.parked[:len(st.parked):len(st.parked)], pk)
		st.frames = st.frames[:idx]
		st.goDepth--
		st.goStack = st.goStack[:len(st.goStack)-1]
		st.path = append(st.path, fmt.Sprintf("park g%d:%s", pk.id, what))
		return stCont
	}
	if p := st.par; p != nil {
		other := 1 - p.cur
		if !p.done[other] && !p.waiting[other] {
			// this thread waits; the other one runs. The blocking instruction re-executes on resume.
			p.waiting[p.cur] = true
			p.stacks[p.cur] = st.frames
			st.frames = p.stacks[other]
			p.cur = other
			p.mustStep[other] = true
			st.path = append(st.path, "wait:"+what)
			return stCont
		}
	}
	if e.runOther(st) {
		return stCont
	}
	if p := st.par; p != nil && !p.done[1-p.cur] && p.waiting[1-p.cur] {
		o := e.obl("deadlock@"+siteFn(ins), "hang")
		o.Checked++
		e.reportViolation(st, o, tTrue, e.modelOf(st), site(ins), "both goroutines wait for each other: "+what)
		st.finished = true
		return stDone
	}
	if held := e.heldLocks(st); len(held) > 0 {
		o := e.obl("blocked-holding-lock@"+siteFn(ins), "lock")
		o.Checked++
		e.reportViolation(st, o, tTrue, e.modelOf(st), site(ins), "goroutine blocks forever ("+what+") while holding a mutex")
	}
	if st.noBlock {
		// the harness declared that no other goroutine exists that could wake this one up
		o := e.obl("blocked-forever@"+siteFn(ins), "hang")
		o.Checked++
		e.reportViolation(st, o, tTrue, e.modelOf(st), site(ins), "goroutine blocks forever: "+what)
	}
	e.res.Cuts["blocked:"+what+"@"+siteFn(ins)]++
	st.path = append(st.path, "blocked:"+what)
	st.finished = true
	st.blockedAt = site(ins)
	// the harness does not continue: unwind nothing, just stop
	return stDone
}

// havocObserve decides whether a havoc channel is closed at this observation.
func (e *Engine) havocObserve(st *State, ch *ChanVal, ins ssa.Instruction) (closed bool, ok bool) {
	c := e.chanContent(st, ch)
	if c.closed {
		return true, true
	}
	// named after the position in the path: the clone made by branch re-executes this instruction
	// and must meet the same variable (already decided by its path condition)
	b := Var(fmt.Sprintf("hv_%d", st.choiceSeq), 0)
	st.nonReplayable = true
	taken, alive := e.branch(st, b, ins, "havoc-chan")
	if !alive {
		return false, false
	}
	st.nondets = append(st.nondets, NondetRec{Kind: "bool", term: b})
	st.choiceSeq++
	if taken {
		nc := *c
		nc.closed = true
		e.setChan(st, ch, &nc)
	}
	return taken, true
}

func (e *Engine) doRecv(st *State, f *Frame, x *ssa.UnOp, ch *ChanVal) int {
	e.parYield(st, "recv")
	elem := x.X.Type().Underlying().(*types.Chan).Elem()
	set := func(v Value, ok bool) int {
		if x.CommaOk {
			f.regs[x] = &TupleVal{e: []Value{v, Bool(ok)}}
		} else {
			f.regs[x] = v
		}
		f.ip++
		return stCont
	}
	if ch.obj == 0 {
		return e.blocked(st, "receive from nil channel", x)
	}
	c := e.chanContent(st, ch)
	if c.havoc && !c.closed {
		// blocking receive on an asynchronous event: it eventually fires or never does
		closed, ok := e.havocObserve(st, ch, x)
		if !ok {
			return stDone
		}
		if !closed {
			return e.blocked(st, "receive on channel that is never signalled", x)
		}
		return set(zeroValue(elem), false)
	}
	if len(c.buf) > 0 {
		nc := *c
		v := c.buf[0]
		nc.buf = append([]Value(nil), c.buf[1:]...)
		e.setChan(st, ch, &nc)
		e.parProgress(st) // a sender waiting for space can go on
		return set(v, true)
	}
	if c.closed {
		return set(zeroValue(elem), false)
	}
	return e.blocked(st, "receive on open empty channel", x)
}

func (e *Engine) doSend(st *State, f *Frame, x *ssa.Send) int {
	ch := e.eval(st, f, x.Chan).(*ChanVal)
	if ch.obj == 0 {
		return e.blocked(st, "send on nil channel", x)
	}
	c := e.chanContent(st, ch)
	if c.closed {
		o := e.obl("send-on-closed@"+siteFn(x), "panic")
		o.Checked++
		e.reportViolation(st, o, tTrue, e.modelOf(st), site(x), "send on closed channel")
		return stDone
	}
	if len(c.buf) < c.capN {
		nc := *c
		nc.buf = append(append([]Value(nil), c.buf...), e.eval(st, f, x.X))
		e.setChan(st, ch, &nc)
		e.parProgress(st) // a receiver waiting on this channel can go on
		f.ip++
		return stCont
	}
	return e.blocked(st, "send with no receiver", x)
}

func (e *Engine) doClose(st *State, f *Frame, ch *ChanVal, ins ssa.Instruction, ret func(Value) int) int {
	e.parYield(st, "close")
	if ch.obj == 0 {
		o := e.obl("close-nil-chan@"+siteFn(ins), "panic")
		o.Checked++
		e.reportViolation(st, o, tTrue, e.modelOf(st), site(ins), "close of nil channel")
		return stDone
	}
	c := e.chanContent(st, ch)
	if c.closed && !c.havoc {
		o := e.obl("close-closed-chan@"+siteFn(ins), "panic")
		o.Checked++
		e.reportViolation(st, o, tTrue, e.modelOf(st), site(ins), "close of closed channel")
		return stDone
	}
	nc := *c
	nc.closed = true
	e.setChan(st, ch, &nc)
	e.parProgress(st)
	return ret(nil)
}

func (e *Engine) doSelect(st *State, f *Frame, x *ssa.Select) int {
	tt := x.Type().(*types.Tuple)
	mk := func(idx int, recvIdx int, v Value, ok bool) int {
		vals := make([]Value, tt.Len())
		vals[0] = c64(int64(idx))
		vals[1] = Bool(ok)
		k := 2
		for i, s := range x.States {
			if s.Dir == types.RecvOnly {
				if i == recvIdx && v != nil {
					vals[k] = v
				} else {
					vals[k] = zeroValue(tt.At(k).Type())
				}
				k++
			}
		}
		f.regs[x] = &TupleVal{e: vals}
		f.ip++
		return stCont
	}
	// first: havoc channels may fire now (one at a time, in order)
	for i, s := range x.States {
		if s.Dir != types.RecvOnly {
			continue
		}
		ch := e.eval(st, f, s.Chan).(*ChanVal)
		if ch.obj == 0 {
			continue
		}
		c := e.chanContent(st, ch)
		if c.havoc && !c.closed {
			closed, ok := e.havocObserve(st, ch, x)
			if !ok {
				return stDone
			}
			if closed {
				return mk(i, i, nil, false)
			}
		}
	}
	// ready cases
	type rc struct {
		i    int
		recv bool
	}
	var ready []rc
	for i, s := range x.States {
		ch := e.eval(st, f, s.Chan).(*ChanVal)
		if ch.obj == 0 {
			continue
		}
		c := e.chanContent(st, ch)
		if s.Dir == types.RecvOnly {
			if len(c.buf) > 0 || c.closed {
				ready = append(ready, rc{i, true})
			}
		} else {
			if c.closed || len(c.buf) < c.capN {
				ready = append(ready, rc{i, false})
			}
		}
	}
	if len(ready) == 0 {
		if !x.Blocking {
			return mk(-1, -1, nil, false)
		}
		return e.blocked(st, "select with no ready case", x)
	}
	// nondeterministic choice among the ready cases
	pick := 0
	if len(ready) > 1 {
		// the choice variable is named after its position in the path, so that the forks made by
		// concretize (which re-execute this instruction) find the value already decided
		sel := Var(fmt.Sprintf("sel_%d", st.choiceSeq), 8)
		if _, decided := st.known[sel.id]; !decided {
			st.nondets = append(st.nondets, NondetRec{Kind: "u8", term: sel})
			st.assume(Ult(sel, BV(uint64(len(ready)), 8)))
		}
		v, ok := e.concretize(st, sel, "select-case")
		if !ok {
			return stDone
		}
		st.choiceSeq++
		pick = int(v)
	}
	r := ready[pick]
	s := x.States[r.i]
	ch := e.eval(st, f, s.Chan).(*ChanVal)
	c := e.chanContent(st, ch)
	if r.recv {
		if len(c.buf) > 0 {
			nc := *c
			v := c.buf[0]
			nc.buf = append([]Value(nil), c.buf[1:]...)
			e.setChan(st, ch, &nc)
			e.parProgress(st)
			return mk(r.i, r.i, v, true)
		}
		return mk(r.i, r.i, nil, false)
	}
	if c.closed {
		o := e.obl("send-on-closed@"+siteFn(x), "panic")
		o.Checked++
		e.reportViolation(st, o, tTrue, e.modelOf(st), site(x), "send on closed channel")
		return stDone
	}
	nc := *c
	nc.buf = append(append([]Value(nil), c.buf...), e.eval(st, f, s.Send))
	e.setChan(st, ch, &nc)
	return mk(r.i, -1, nil, false)
}

// ---- two-thread kernel (vPar) ----
// vPar(f, g) runs the two closures as threads whose scheduling points are the sync/atomic
// intrinsics: before every atomic operation of the running thread the engine forks into "keep
// running" and "switch to the other thread" (which then must perform at least its pending step).
// All interleavings of the atomic operations are explored.

type ParState struct {
	stacks   [2][]*Frame
	cur      int
	done     [2]bool
	mustStep [2]bool
	waiting  [2]bool // the thread is parked on a blocking operation and nothing changed since
	main     []*Frame
	call     ssa.Value
}

func (p *ParState) clone() *ParState {
	q := *p
	for i := 0; i < 2; i++ {
		q.stacks[i] = make([]*Frame, len(p.stacks[i]))
		for j, f := range p.stacks[i] {
			q.stacks[i][j] = f.clone()
		}
	}
	q.main = make([]*Frame, len(p.main))
	for j, f := range p.main {
		q.main[j] = f.clone()
	}
	return &q
}

func (e *Engine) parStart(st *State, f *Frame, args []Value, ins ssa.Instruction, ret func(Value) int) int {
	fa, fb := args[0].(*FuncVal), args[1].(*FuncVal)
	p := &ParState{}
	p.stacks[0] = []*Frame{e.newFrame(fa.fn, nil, fa.bind)}
	p.stacks[1] = []*Frame{e.newFrame(fb.fn, nil, fb.bind)}
	p.main = st.frames
	st.par = p
	st.frames = p.stacks[0]
	st.nonReplayable = true
	return stCont
}

// parThreadDone is called when the running thread's stack became empty.
func (e *Engine) parThreadDone(st *State) int {
	p := st.par
	p.done[p.cur] = true
	other := 1 - p.cur
	p.waiting[other] = false
	if !p.done[other] {
		p.stacks[p.cur] = nil
		st.frames = p.stacks[other]
		p.cur = other
		p.mustStep[other] = false
		return stCont
	}
	st.frames = p.main
	st.par = nil
	mf := st.top()
	mf.ip++
	return stCont
}

// parProgress: the running thread changed shared synchronisation state; a parked thread may be able
// to continue.
func (e *Engine) parProgress(st *State) {
	st.epoch++
	if p := st.par; p != nil {
		p.waiting[1-p.cur] = false
	}
}

func (e *Engine) parYield(st *State, what string) (int, bool) {
	p := st.par
	if p == nil {
		return 0, false
	}
	t := p.cur
	if p.mustStep[t] {
		p.mustStep[t] = false
		return 0, false
	}
	other := 1 - t
	if p.done[other] {
		return 0, false
	}
	// fork: the other thread runs now
	o := st.clone()
	op := o.par
	op.stacks[t] = o.frames
	o.frames = op.stacks[other]
	op.cur = other
	op.mustStep[other] = true
	op.mustStep[t] = true // when this thread resumes it performs the pending operation first
	o.path = append(o.path, "switch@"+what)
	e.pushFork(o)
	st.path = append(st.path, "stay@"+what)
	return 0, false
}

// runOther starts the oldest goroutine that has not run yet or resumes the oldest parked goroutine
// for which something changed since it parked. The instruction of the frame below re-executes when
// that goroutine finishes or parks.
func (e *Engine) runOther(st *State) bool {
	for len(st.pendingGo) > 0 {
		g := st.pendingGo[0]
		st.pendingGo = st.pendingGo[1:]
		if g.fn.fn.Blocks == nil {
			continue
		}
		nf := e.newFrame(g.fn.fn, g.args, g.fn.bind)
		nf.goFrame = true
		st.frames = append(st.frames, nf)
		st.goDepth++
		st.goSeq++
		st.goStack = append(st.goStack, 1000+st.goSeq)
		st.path = append(st.path, "run-goroutine:"+g.fn.fn.Name())
		return true
	}
	for i, pk := range st.parked {
		if pk.epoch < st.epoch {
			rest := append([]*Parked(nil), st.parked[:i]...)
			st.parked = append(rest, st.parked[i+1:]...)
			st.frames = append(st.frames, pk.frames...)
			st.goDepth++
			st.goStack = append(st.goStack, pk.id)
			st.path = append(st.path, fmt.Sprintf("resume g%d", pk.id))
			return true
		}
	}
	return false
}

package main

// Channels, select, and the two-thread kernel (vPar).

import (
	"golang.org/x/tools/go/ssa"
)

func (e *Engine) doRecv(st *State, f *Frame, x *ssa.UnOp, ch *ChanVal) int {
	unsupp("channel receive")
	return stDone
}
func (e *Engine) doSend(st *State, f *Frame, x *ssa.Send) int {
	unsupp("channel send")
	return stDone
}
func (e *Engine) doSelect(st *State, f *Frame, x *ssa.Select) int {
	unsupp("select")
	return stDone
}
func (e *Engine) doClose(st *State, f *Frame, ch *ChanVal, ins ssa.Instruction, ret func(Value) int) int {
	unsupp("close")
	return stDone
}
func (e *Engine) parYield(st *State, what string) (int, bool) { return 0, false }
func (e *Engine) parStart(st *State, f *Frame, args []Value, ins ssa.Instruction, ret func(Value) int) int {
	unsupp("vPar")
	return stDone
}

package main

// Solver back ends: long-lived z3 / cvc5 processes driven over stdin/stdout. Term definitions are
// global (":global-declarations"), each query is one push/assert*/check-sat/pop block over the
// sliced path condition. Back ends are raced; the losers are killed and respawned lazily.

import (
	"bufio"
	"fmt"
	"io"
	"os"
	"os/exec"
	"strconv"
	"strings"
	"sync"
	"sync/atomic"
	"time"
)

type Verdict int

const (
	Unsat Verdict = iota
	Sat
	Unknown
)

func (v Verdict) String() string { return [...]string{"unsat", "sat", "unknown"}[v] }

type Backend struct {
	name    string
	cmd     *exec.Cmd
	in      io.WriteCloser
	out     *bufio.Reader
	defined map[int]bool
	ufDecl  map[string]bool
	dead    bool
	errs    int
	log     *os.File
	argv    []string
	timeout time.Duration
	mu      sync.Mutex
	gen     int64 // query generation (atomic): guards kills against hitting a later query
	running int64 // generation currently executing (atomic), 0 when idle
}

func startBackend(name string, timeoutMS int) (*Backend, error) {
	var argv []string
	switch name {
	case "z3", "z3-fast":
		argv = []string{"z3", "-in", fmt.Sprintf("-t:%d", timeoutMS), "-memory:6000"}
	case "z3-new":
		argv = []string{"z3-new", "-in", fmt.Sprintf("-t:%d", timeoutMS), "-memory:6000"}
	case "cvc5", "cvc5-fast":
		argv = []string{"cvc5", "--incremental", "--lang=smt2", "--produce-models", fmt.Sprintf("--tlimit-per=%d", timeoutMS)}
	case "cvc5-bvint":
		argv = []string{"cvc5", "--incremental", "--lang=smt2", "--produce-models", "--solve-bv-as-int=sum", fmt.Sprintf("--tlimit-per=%d", timeoutMS)}
	default:
		return nil, fmt.Errorf("unknown backend %s", name)
	}
	b := &Backend{name: name, argv: argv, timeout: time.Duration(timeoutMS) * time.Millisecond, dead: true}
	if err := b.spawn(); err != nil {
		return nil, err
	}
	return b, nil
}

func (b *Backend) spawn() error {
	cmd := exec.Command(b.argv[0], b.argv[1:]...)
	in, err := cmd.StdinPipe()
	if err != nil {
		return err
	}
	out, err := cmd.StdoutPipe()
	if err != nil {
		return err
	}
	cmd.Stderr = cmd.Stdout
	if err := cmd.Start(); err != nil {
		return err
	}
	b.cmd, b.in, b.out = cmd, in, bufio.NewReaderSize(out, 1<<16)
	b.defined = map[int]bool{}
	b.ufDecl = map[string]bool{}
	b.dead = false
	b.send("(set-option :global-declarations true)\n(set-option :produce-models true)\n")
	if strings.HasPrefix(b.name, "cvc5") {
		b.send("(set-logic ALL)\n")
	}
	if p := os.Getenv("GOSYM_SMTLOG"); p != "" && b.log == nil {
		b.log, _ = os.Create(p + "." + b.name + "." + strconv.Itoa(os.Getpid()))
	}
	return nil
}

func (b *Backend) send(s string) {
	if b.log != nil {
		b.log.WriteString(s)
	}
	if _, err := io.WriteString(b.in, s); err != nil {
		b.dead = true
	}
}

// kill terminates the process (safe to call from another goroutine while Check is blocked).
func (b *Backend) kill() {
	if c := b.cmd; c != nil && c.Process != nil {
		c.Process.Kill()
	}
}

func (b *Backend) reap() {
	if b.cmd != nil {
		b.cmd.Process.Kill()
		b.cmd.Wait()
		b.cmd = nil
	}
	b.dead = true
}

func (b *Backend) define(t *Term, sb *strings.Builder) {
	if t.op == OConst || b.defined[t.id] {
		return
	}
	type fr struct {
		t *Term
		i int
	}
	st := []fr{{t, 0}}
	for len(st) > 0 {
		f := &st[len(st)-1]
		if f.i < len(f.t.a) {
			c := f.t.a[f.i]
			f.i++
			if c.op != OConst && !b.defined[c.id] {
				st = append(st, fr{c, 0})
			}
			continue
		}
		x := f.t
		st = st[:len(st)-1]
		if b.defined[x.id] {
			continue
		}
		b.defined[x.id] = true
		switch x.op {
		case OVar:
			fmt.Fprintf(sb, "(declare-fun %s () %s)\n", x.name, sortOf(x.w))
		case OSelect, OUF:
			if !b.ufDecl[x.name] {
				b.ufDecl[x.name] = true
				sb.WriteString(TS.ufs[x.name])
				sb.WriteString("\n")
			}
			fmt.Fprintf(sb, "(define-fun t%d () %s %s)\n", x.id, sortOf(x.w), x.body())
		default:
			fmt.Fprintf(sb, "(define-fun t%d () %s %s)\n", x.id, sortOf(x.w), x.body())
		}
	}
}

func (b *Backend) readLine() (string, error) {
	s, err := b.out.ReadString('\n')
	return strings.TrimSpace(s), err
}

// Check decides the conjunction of asserts and extra; want lists terms whose values are wanted.
func (b *Backend) Check(asserts []*Term, extra []*Term, want []*Term) (Verdict, map[int]uint64, string) {
	b.mu.Lock()
	script, want, err := b.prepare(asserts, extra, want)
	if err != "" {
		b.mu.Unlock()
		return Unknown, nil, err
	}
	return b.exec(script, want)
}

// prepare serialises the query (touches the term store: must run on the engine goroutine, with
// b.mu held). exec sends it and reads the answer (no term-store access) and releases b.mu.
func (b *Backend) prepare(asserts []*Term, extra []*Term, want []*Term) (string, []*Term, string) {
	if b.dead {
		b.reap()
		if err := b.spawn(); err != nil {
			return "", nil, "spawn: " + err.Error()
		}
	}
	{
		var w2 []*Term
		for _, t := range want {
			if t.op != OConst {
				w2 = append(w2, t)
			}
		}
		want = w2
	}
	var sb strings.Builder
	for _, l := range [][]*Term{asserts, extra, want} {
		for _, t := range l {
			b.define(t, &sb)
		}
	}
	sb.WriteString("(push 1)\n")
	for _, e := range asserts {
		fmt.Fprintf(&sb, "(assert %s)\n", e.ref())
	}
	for _, e := range extra {
		fmt.Fprintf(&sb, "(assert %s)\n", e.ref())
	}
	sb.WriteString("(check-sat)\n")
	return sb.String(), want, ""
}

func (b *Backend) exec(script string, want []*Term) (Verdict, map[int]uint64, string) {
	defer b.mu.Unlock()
	defer atomic.StoreInt64(&b.running, 0)
	b.send(script)
	line, err := b.readLine()
	for err == nil && line == "" {
		line, err = b.readLine()
	}
	if err != nil {
		b.dead = true
		return Unknown, nil, "io: " + err.Error()
	}
	var v Verdict
	switch {
	case line == "sat":
		v = Sat
	case line == "unsat":
		v = Unsat
	case line == "unknown" || line == "timeout":
		v = Unknown
	default:
		// (error ...) or anything unexpected: inconclusive; respawn to resynchronise.
		b.errs++
		b.dead = true
		return Unknown, nil, "solver said: " + line
	}
	var vals map[int]uint64
	if v == Sat && len(want) > 0 {
		vals = map[int]uint64{}
		for i := 0; i < len(want); i += 64 {
			j := i + 64
			if j > len(want) {
				j = len(want)
			}
			var q strings.Builder
			q.WriteString("(get-value (")
			for _, t := range want[i:j] {
				q.WriteString(t.ref() + " ")
			}
			q.WriteString("))\n")
			b.send(q.String())
			txt, err := b.readSexp()
			if err != nil {
				b.dead = true
				return Unknown, nil, "get-value: " + err.Error()
			}
			got := parseValues(txt)
			if len(got) != j-i {
				b.errs++
				b.dead = true
				return Unknown, nil, "get-value parse: " + txt
			}
			for k, t := range want[i:j] {
				vals[t.id] = got[k]
			}
		}
	}
	b.send("(pop 1)\n")
	return v, vals, ""
}

func (b *Backend) readSexp() (string, error) {
	var sb strings.Builder
	depth := 0
	started := false
	for {
		line, err := b.readLine()
		if err != nil {
			return sb.String(), err
		}
		if strings.HasPrefix(line, "(error") {
			return line, fmt.Errorf("%s", line)
		}
		for _, c := range line {
			if c == '(' {
				depth++
				started = true
			} else if c == ')' {
				depth--
			}
		}
		sb.WriteString(line)
		sb.WriteString(" ")
		if started && depth <= 0 {
			return sb.String(), nil
		}
	}
}

// parseValues extracts the value literals of a get-value response in order. All requested
// references are plain symbols (tN or variable names).
func parseValues(s string) []uint64 {
	var out []uint64
	depth := 0
	i := 0
	for i < len(s) {
		c := s[i]
		switch c {
		case '(':
			depth++
			if depth == 2 {
				j := i + 1
				for j < len(s) && s[j] != ' ' {
					j++
				}
				for j < len(s) && s[j] == ' ' {
					j++
				}
				k := j
				d := 0
				for k < len(s) {
					if s[k] == '(' {
						d++
					} else if s[k] == ')' {
						if d == 0 {
							break
						}
						d--
					}
					k++
				}
				out = append(out, parseLit(strings.TrimSpace(s[j:k])))
				i = k
				depth = 1
			}
		case ')':
			depth--
		}
		i++
	}
	return out
}

func parseLit(v string) uint64 {
	switch {
	case v == "true":
		return 1
	case v == "false":
		return 0
	case strings.HasPrefix(v, "#x"):
		n, _ := strconv.ParseUint(v[2:], 16, 64)
		return n
	case strings.HasPrefix(v, "#b"):
		n, _ := strconv.ParseUint(v[2:], 2, 64)
		return n
	case strings.HasPrefix(v, "(_ bv"):
		f := strings.Fields(v[5:])
		n, _ := strconv.ParseUint(f[0], 10, 64)
		return n
	}
	return 0
}

// ---- portfolio ----

type Portfolio struct {
	AbsQueries      int
	AbsUnsat        int
	AssumedFeasible int
	Disagreements   int
	z3, cvc5, bvint *Backend
	z3new           *Backend
	z3fast          *Backend
	cvc5fast        *Backend
	stats           map[string]*SolverStat
	tmoMS           int
	crossCheck      bool
	statMu          sync.Mutex
}

type SolverStat struct {
	Queries int     `json:"queries"`
	Wins    int     `json:"answered"`
	TimeS   float64 `json:"time_s"`
	Unknown int     `json:"unknown"`
}

func newPortfolio(timeoutMS int) (*Portfolio, error) {
	p := &Portfolio{stats: map[string]*SolverStat{}, tmoMS: timeoutMS}
	var err error
	if p.z3, err = startBackend("z3", timeoutMS); err != nil {
		return nil, err
	}
	if p.cvc5, err = startBackend("cvc5", timeoutMS); err != nil {
		return nil, err
	}
	if p.bvint, err = startBackend("cvc5-bvint", timeoutMS); err != nil {
		return nil, err
	}
	return p, nil
}

func (p *Portfolio) close() {
	for _, b := range []*Backend{p.z3, p.cvc5, p.bvint, p.z3new, p.z3fast, p.cvc5fast} {
		if b != nil {
			b.reap()
		}
	}
}

func (p *Portfolio) stat(name string) *SolverStat {
	s := p.stats[name]
	if s == nil {
		s = &SolverStat{}
		p.stats[name] = s
	}
	return s
}

func anyNL(ts ...[]*Term) bool {
	for _, l := range ts {
		for _, t := range l {
			if t.nl {
				return true
			}
		}
	}
	return false
}

type raceRes struct {
	b   *Backend
	v   Verdict
	m   map[int]uint64
	msg string
	d   time.Duration
}

// race runs the query on all given back ends concurrently and returns the first definitive
// answer. Losers finish in the background; one that is still busy after a grace period is killed
// (it respawns lazily). Back ends serialise on their own mutex, so a following query simply waits.
func (p *Portfolio) race(backs []*Backend, asserts, extra, want []*Term) (Verdict, map[int]uint64, string) {
	ch := make(chan raceRes, len(backs))
	n := 0
	launched := map[*Backend]int64{}
	launch := func(b *Backend) {
		script, w2, err := b.prepare(asserts, extra, want)
		if err != "" {
			b.mu.Unlock()
			return
		}
		n++
		g := atomic.AddInt64(&b.gen, 1)
		launched[b] = g
		atomic.StoreInt64(&b.running, g)
		go func() {
			t0 := time.Now()
			v, m, msg := b.exec(script, w2)
			ch <- raceRes{b, v, m, msg, time.Since(t0)}
		}()
	}
	var busy []*Backend
	for _, b := range backs {
		if b == nil {
			continue
		}
		if b.mu.TryLock() {
			launch(b)
		} else {
			busy = append(busy, b)
		}
	}
	if n == 0 {
		// every back end is still finishing a previous query: wait for them
		for _, b := range busy {
			b.mu.Lock()
			launch(b)
		}
		busy = nil
	}
	var why []string
	t0 := time.Now()
	// hard watchdog: solvers do not always honour their soft time limits
	hard := time.After(2*time.Duration(p.tmoMS)*time.Millisecond + 5*time.Second)
	for i := 0; i < n; i++ {
		var r raceRes
		select {
		case r = <-ch:
		case <-hard:
			for b, g := range launched {
				if atomic.LoadInt64(&b.running) == g {
					b.kill()
				}
			}
			hard = nil
			r = <-ch
		}
		p.statMu.Lock()
		s := p.stat(r.b.name)
		s.Queries++
		s.TimeS += r.d.Seconds()
		if r.v == Unknown {
			s.Unknown++
			p.statMu.Unlock()
			why = append(why, r.b.name+": "+r.msg)
			continue
		}
		s.Wins++
		p.statMu.Unlock()
		if rest := n - i - 1; rest > 0 {
			g := 3 * r.d
			if g < 200*time.Millisecond {
				g = 200 * time.Millisecond
			}
			go p.drain(ch, rest, launched, r.b, g, r.v)
		}
		if d := time.Since(t0); d > 2*time.Second && os.Getenv("GOSYM_SLOW") != "" {
			fmt.Fprintf(os.Stderr, "SLOW %.1fs winner=%s=%v asserts=%d extra=%v\n", d.Seconds(), r.b.name, r.v, len(asserts), extra)
		}
		return r.v, r.m, ""
	}
	if d := time.Since(t0); d > 2*time.Second && os.Getenv("GOSYM_SLOW") != "" {
		fmt.Fprintf(os.Stderr, "SLOW %.1fs winner=none asserts=%d extra=%v\n", d.Seconds(), len(asserts), extra)
	}
	if len(busy) > 0 {
		for _, b := range busy {
			b.mu.Lock()
			b.mu.Unlock()
		}
		v, m, w2 := p.race(busy, asserts, extra, want)
		if v != Unknown {
			return v, m, ""
		}
		why = append(why, w2)
	}
	return Unknown, nil, strings.Join(why, "; ")
}

func (p *Portfolio) drain(ch chan raceRes, rest int, launched map[*Backend]int64, winner *Backend, grace time.Duration, wv Verdict) {
	timer := time.After(grace)
	got := map[*Backend]bool{winner: true}
	for rest > 0 {
		select {
		case r := <-ch:
			got[r.b] = true
			rest--
			p.statMu.Lock()
			s := p.stat(r.b.name)
			s.Queries++
			s.TimeS += r.d.Seconds()
			if r.v != Unknown && r.v != wv {
				p.Disagreements++
				fmt.Fprintf(os.Stderr, "SOLVER DISAGREEMENT %s=%v %s=%v\n", winner.name, wv, r.b.name, r.v)
			}
			p.statMu.Unlock()
		case <-timer:
			for b, g := range launched {
				if !got[b] && atomic.LoadInt64(&b.running) == g {
					b.kill()
				}
			}
			timer = nil
		}
	}
}

// abstractUnsat tries to refute asserts ∧ extra with nonlinear products abstracted.
func (p *Portfolio) abstractUnsat(asserts, extra []*Term) bool {
	ma := newMulAbs()
	A := ma.rwAll(asserts)
	E := ma.rwAll(extra)
	if len(ma.prods) == 0 {
		return false
	}
	A = append(A, ma.axioms()...)
	v, _, _ := p.race([]*Backend{p.z3, p.cvc5}, A, E, nil)
	p.AbsQueries++
	if v == Unsat {
		p.AbsUnsat++
		return true
	}
	return false
}

// Check decides pc ∧ extra. Verdict-only queries (no model wanted) are sliced to the constraints
// that share symbols with the query.
func (p *Portfolio) Check(pc []*Term, extra []*Term, want []*Term) (Verdict, map[int]uint64, string) {
	asserts := pc
	if len(want) == 0 && len(extra) > 0 {
		asserts = sliceFor(pc, extra)
	}
	nl := anyNL(asserts, extra)
	if nl {
		if p.abstractUnsat(asserts, extra) {
			return Unsat, nil, ""
		}
	}
	backs := []*Backend{p.z3, p.cvc5}
	if len(want) > 0 {
		// model queries: cvc5 1.0.x in incremental mode sometimes aborts in get-value
		// ("cadical: can only get value in satisfied state"); ask the z3s for models
		if p.z3new == nil {
			p.z3new, _ = startBackend("z3-new", p.tmoMS)
		}
		backs = []*Backend{p.z3, p.z3new}
	}
	if nl {
		backs = append(backs, p.bvint)
	}
	v, m, why := p.race(backs, asserts, extra, want)
	if v != Unknown {
		return v, m, ""
	}
	if p.z3new == nil {
		p.z3new, _ = startBackend("z3-new", p.tmoMS)
	}
	if p.z3new != nil {
		v, m, w2 := p.race([]*Backend{p.z3new}, asserts, extra, want)
		if v != Unknown {
			return v, m, ""
		}
		why += "; " + w2
	}
	return Unknown, nil, why
}

// CheckFeas is the branch-feasibility variant: with nonlinear constraints an abstract "sat" that
// cannot be confirmed quickly is accepted as feasible (over-approximating the set of paths is
// sound: violations are only ever reported from exact sat answers and replayed natively).
func (p *Portfolio) CheckFeas(pc []*Term, extra []*Term) (Verdict, string) {
	asserts := pc
	if len(extra) > 0 {
		asserts = sliceFor(pc, extra)
	}
	if !anyNL(asserts, extra) {
		v, _, why := p.Check(pc, extra, nil)
		return v, why
	}
	if p.abstractUnsat(asserts, extra) {
		return Unsat, ""
	}
	if p.z3fast == nil {
		p.z3fast, _ = startBackend("z3-fast", 1500)
	}
	if p.cvc5fast == nil {
		p.cvc5fast, _ = startBackend("cvc5-fast", 1500)
	}
	v, _, _ := p.race([]*Backend{p.z3fast, p.cvc5fast}, asserts, extra, nil)
	if v != Unknown {
		return v, ""
	}
	p.AssumedFeasible++
	return Sat, ""
}

package main

// Loop acceleration for the byte-fill idiom that go/ssa produces for
//     for i := range s { s[i] = c }
// (rangeindex.loop / rangeindex.body). With a symbolic trip count the loop cannot be unrolled;
// its effect is exactly one Fill node on the byte memory.

import (
	"go/token"
	"go/types"

	"golang.org/x/tools/go/ssa"
)

type fillLoop struct {
	phi   *ssa.Phi
	inc   *ssa.BinOp
	cmp   *ssa.BinOp
	n     ssa.Value
	slice ssa.Value
	val   ssa.Value
	body  *ssa.BasicBlock
	done  *ssa.BasicBlock
	ia    *ssa.IndexAddr
}

var fillCache = map[*ssa.BasicBlock]*fillLoop{}

func matchFillLoop(b *ssa.BasicBlock) *fillLoop {
	if fl, ok := fillCache[b]; ok {
		return fl
	}
	fillCache[b] = nil
	if len(b.Instrs) != 4 || len(b.Succs) != 2 || len(b.Preds) != 2 {
		return nil
	}
	phi, ok := b.Instrs[0].(*ssa.Phi)
	if !ok {
		return nil
	}
	inc, ok := b.Instrs[1].(*ssa.BinOp)
	if !ok || inc.Op != token.ADD || inc.X != ssa.Value(phi) {
		return nil
	}
	if c, ok := inc.Y.(*ssa.Const); !ok || c.Int64() != 1 {
		return nil
	}
	cmp, ok := b.Instrs[2].(*ssa.BinOp)
	if !ok || cmp.Op != token.LSS || cmp.X != ssa.Value(inc) {
		return nil
	}
	iff, ok := b.Instrs[3].(*ssa.If)
	if !ok || iff.Cond != ssa.Value(cmp) {
		return nil
	}
	body, done := b.Succs[0], b.Succs[1]
	if len(body.Instrs) != 3 || len(body.Succs) != 1 || body.Succs[0] != b {
		return nil
	}
	ia, ok := body.Instrs[0].(*ssa.IndexAddr)
	if !ok || ia.Index != ssa.Value(inc) {
		return nil
	}
	st, ok := body.Instrs[1].(*ssa.Store)
	if !ok || st.Addr != ssa.Value(ia) {
		return nil
	}
	if _, ok := st.Val.(*ssa.Const); !ok {
		return nil
	}
	sl, ok := ia.X.Type().Underlying().(*types.Slice)
	if !ok || !isByte(sl.Elem()) {
		return nil
	}
	// the phi must start at -1 from the entering edge and the loop registers must not be used
	// outside the loop
	for i, p := range b.Preds {
		if p == body {
			if phi.Edges[i] != ssa.Value(inc) {
				return nil
			}
		} else {
			c, ok := phi.Edges[i].(*ssa.Const)
			if !ok || c.Int64() != -1 {
				return nil
			}
		}
	}
	for _, v := range []ssa.Value{phi, inc, cmp, ia} {
		for _, r := range *v.Referrers() {
			if r.Block() != b && r.Block() != body {
				return nil
			}
		}
	}
	fl := &fillLoop{phi: phi, inc: inc, cmp: cmp, n: cmp.Y, slice: ia.X, val: st.Val, body: body, done: done, ia: ia}
	fillCache[b] = fl
	return fl
}

// tryFillLoop is called when control enters block b from from. It returns true if the whole loop
// was executed in one step and control now stands at the loop's exit block.
func (e *Engine) tryFillLoop(st *State, f *Frame, from, b *ssa.BasicBlock) (handled bool, alive bool) {
	fl := matchFillLoop(b)
	if fl == nil || from == fl.body {
		return false, true
	}
	n := asTerm(e.eval(st, f, fl.n))
	if n.IsConst() && n.k <= 64 {
		return false, true // short concrete loops are simply executed
	}
	sv, ok := e.eval(st, f, fl.slice).(*SliceVal)
	if !ok {
		return false, true
	}
	cnt := Ite(Slt(n, c64(0)), c64(0), n)
	if sv.obj == 0 {
		if !e.require(st, Eq(cnt, c64(0)), "bounds@"+siteFn(fl.ia), "bounds", site(fl.ia)) {
			return true, false
		}
	} else {
		if !e.require(st, Sle(cnt, sv.len), "bounds@"+siteFn(fl.ia), "bounds", site(fl.ia)) {
			return true, false
		}
		bv := st.bytesAt(sv.obj, sv.path)
		val := asTerm(e.eval(st, f, fl.val))
		st.setBytesAt(sv.obj, sv.path, &BytesVal{mem: memFill(bv.mem, sv.off, cnt, val), n: bv.n})
	}
	e.res.Stubs["accelerated byte-fill loop ("+siteFn(fl.ia)+")"]++
	// leave the loop: control arrives at done from b
	f.blk = b
	e.gotoBlock(st, f, fl.done)
	return true, true
}

package main

// Solver back ends: long-lived z3 / cvc5 processes driven over stdin/stdout.
// The path condition is mirrored on the solver's assertion stack (one push level
// per path-condition term) so that consecutive DFS queries share their prefix.

import (
	"bufio"
	"fmt"
	"io"
	"os"
	"os/exec"
	"sort"
	"strconv"
	"strings"
	"time"
)

type Verdict int

const (
	Unsat Verdict = iota
	Sat
	Unknown
)

func (v Verdict) String() string { return [...]string{"unsat", "sat", "unknown"}[v] }

type Backend struct {
	name    string
	cmd     *exec.Cmd
	in      io.WriteCloser
	out     *bufio.Reader
	defined map[int]bool
	ufDecl  map[string]bool
	stack   []*Term // asserted path condition, one push level each
	queries int
	timeNS  int64
	dead    bool
	errs    int
	log     *os.File
	argv    []string
	timeout time.Duration
}

func startBackend(name string, timeoutMS int) (*Backend, error) {
	var argv []string
	switch name {
	case "z3":
		argv = []string{"z3", "-in", fmt.Sprintf("-t:%d", timeoutMS)}
	case "z3-new":
		argv = []string{"z3-new", "-in", fmt.Sprintf("-t:%d", timeoutMS)}
	case "cvc5":
		argv = []string{"cvc5", "--incremental", "--lang=smt2", "--produce-models", fmt.Sprintf("--tlimit-per=%d", timeoutMS)}
	case "cvc5-bvint":
		argv = []string{"cvc5", "--incremental", "--lang=smt2", "--produce-models", "--solve-bv-as-int=sum", fmt.Sprintf("--tlimit-per=%d", timeoutMS)}
	default:
		return nil, fmt.Errorf("unknown backend %s", name)
	}
	b := &Backend{name: name, argv: argv, timeout: time.Duration(timeoutMS) * time.Millisecond}
	if err := b.spawn(); err != nil {
		return nil, err
	}
	return b, nil
}

func (b *Backend) spawn() error {
	cmd := exec.Command(b.argv[0], b.argv[1:]...)
	in, err := cmd.StdinPipe()
	if err != nil {
		return err
	}
	out, err := cmd.StdoutPipe()
	if err != nil {
		return err
	}
	cmd.Stderr = cmd.Stdout
	if err := cmd.Start(); err != nil {
		return err
	}
	b.cmd, b.in, b.out = cmd, in, bufio.NewReaderSize(out, 1<<16)
	b.defined = map[int]bool{}
	b.ufDecl = map[string]bool{}
	b.stack = nil
	b.dead = false
	b.send("(set-option :global-declarations true)\n(set-option :produce-models true)\n")
	if strings.HasPrefix(b.name, "cvc5") {
		b.send("(set-logic ALL)\n")
	}
	if p := os.Getenv("GOSYM_SMTLOG"); p != "" && b.log == nil {
		b.log, _ = os.Create(p + "." + b.name + "." + strconv.Itoa(os.Getpid()))
	}
	return nil
}

func (b *Backend) send(s string) {
	if b.log != nil {
		b.log.WriteString(s)
	}
	if _, err := io.WriteString(b.in, s); err != nil {
		b.dead = true
	}
}

func (b *Backend) kill() {
	if b.cmd != nil && b.cmd.Process != nil {
		b.cmd.Process.Kill()
		b.cmd.Wait()
	}
	b.dead = true
}

func (b *Backend) restart() {
	b.kill()
	b.spawn()
}

// define emits define-funs for t and everything below it (must be called at stack level 0 for
// permanence; we emit inside the current level and track per-level definitions instead: simpler is
// to always define before pushing, see syncStack).
func (b *Backend) define(t *Term, sb *strings.Builder) {
	if t.op == OConst {
		return
	}
	if b.defined[t.id] {
		return
	}
	// iterative post-order to avoid deep recursion
	type fr struct {
		t *Term
		i int
	}
	st := []fr{{t, 0}}
	for len(st) > 0 {
		f := &st[len(st)-1]
		if f.i < len(f.t.a) {
			c := f.t.a[f.i]
			f.i++
			if c.op != OConst && !b.defined[c.id] {
				st = append(st, fr{c, 0})
			}
			continue
		}
		x := f.t
		st = st[:len(st)-1]
		if b.defined[x.id] {
			continue
		}
		b.defined[x.id] = true
		switch x.op {
		case OVar:
			fmt.Fprintf(sb, "(declare-fun %s () %s)\n", x.name, sortOf(x.w))
		case OSelect, OUF:
			if !b.ufDecl[x.name] {
				b.ufDecl[x.name] = true
				sb.WriteString(TS.ufs[x.name])
				sb.WriteString("\n")
			}
			fmt.Fprintf(sb, "(define-fun t%d () %s %s)\n", x.id, sortOf(x.w), x.body())
		default:
			fmt.Fprintf(sb, "(define-fun t%d () %s %s)\n", x.id, sortOf(x.w), x.body())
		}
	}
}

// With :global-declarations definitions survive pop, so they can be emitted at any level.
func (b *Backend) ensureDefined(ts []*Term) {
	var sb strings.Builder
	for _, t := range ts {
		b.define(t, &sb)
	}
	if sb.Len() > 0 {
		b.send(sb.String())
	}
}

func (b *Backend) syncStack(pc []*Term) {
	b.ensureDefined(pc)
	i := 0
	for i < len(pc) && i < len(b.stack) && pc[i] == b.stack[i] {
		i++
	}
	var sb strings.Builder
	if n := len(b.stack) - i; n > 0 {
		fmt.Fprintf(&sb, "(pop %d)\n", n)
		b.stack = b.stack[:i]
	}
	for ; i < len(pc); i++ {
		fmt.Fprintf(&sb, "(push 1)\n(assert %s)\n", pc[i].ref())
		b.stack = append(b.stack, pc[i])
	}
	if sb.Len() > 0 {
		b.send(sb.String())
	}
}

func (b *Backend) readLine() (string, error) {
	type res struct {
		s   string
		err error
	}
	ch := make(chan res, 1)
	go func() {
		s, err := b.out.ReadString('\n')
		ch <- res{s, err}
	}()
	select {
	case r := <-ch:
		return strings.TrimSpace(r.s), r.err
	case <-time.After(b.timeout*2 + 10*time.Second):
		return "", fmt.Errorf("solver %s hung", b.name)
	}
}

// Check decides pc ∧ extra. wantModel lists terms whose values are wanted on sat.
func (b *Backend) Check(pc []*Term, extra []*Term, want []*Term) (Verdict, map[int]uint64, string) {
	if b.dead {
		b.spawn()
	}
	start := time.Now()
	defer func() { b.timeNS += time.Since(start).Nanoseconds(); b.queries++ }()
	b.syncStack(pc)
	{
		var w2 []*Term
		for _, t := range want {
			if t.op != OConst {
				w2 = append(w2, t)
			}
		}
		want = w2
	}
	all := append(append([]*Term{}, extra...), want...)
	b.ensureDefined(all)
	var sb strings.Builder
	sb.WriteString("(push 1)\n")
	for _, e := range extra {
		fmt.Fprintf(&sb, "(assert %s)\n", e.ref())
	}
	sb.WriteString("(check-sat)\n")
	b.send(sb.String())
	line, err := b.readLine()
	for err == nil && line == "" {
		line, err = b.readLine()
	}
	if err != nil {
		b.restart()
		return Unknown, nil, "io: " + err.Error()
	}
	var v Verdict
	switch {
	case line == "sat":
		v = Sat
	case line == "unsat":
		v = Unsat
	case line == "unknown" || line == "timeout":
		v = Unknown
	default:
		// (error ...) or anything unexpected: inconclusive; restart to resynchronise.
		b.errs++
		b.restart()
		return Unknown, nil, "solver said: " + line
	}
	var vals map[int]uint64
	if v == Sat && len(want) > 0 {
		vals = map[int]uint64{}
		// query in chunks
		for i := 0; i < len(want); i += 64 {
			j := i + 64
			if j > len(want) {
				j = len(want)
			}
			var q strings.Builder
			q.WriteString("(get-value (")
			for _, t := range want[i:j] {
				q.WriteString(t.ref() + " ")
			}
			q.WriteString("))\n")
			b.send(q.String())
			txt, err := b.readSexp()
			if err != nil {
				b.restart()
				return Unknown, nil, "get-value: " + err.Error()
			}
			got := parseValues(txt)
			if len(got) != j-i {
				b.errs++
				b.restart()
				return Unknown, nil, "get-value parse: " + txt
			}
			for k, t := range want[i:j] {
				vals[t.id] = got[k]
			}
		}
	}
	b.send("(pop 1)\n")
	return v, vals, ""
}

// readSexp reads one balanced s-expression (possibly spanning lines).
func (b *Backend) readSexp() (string, error) {
	var sb strings.Builder
	depth := 0
	started := false
	for {
		line, err := b.readLine()
		if err != nil {
			return sb.String(), err
		}
		if strings.HasPrefix(line, "(error") {
			return line, fmt.Errorf("%s", line)
		}
		for _, c := range line {
			if c == '(' {
				depth++
				started = true
			} else if c == ')' {
				depth--
			}
		}
		sb.WriteString(line)
		sb.WriteString(" ")
		if started && depth <= 0 {
			return sb.String(), nil
		}
	}
}

// parseValues extracts the value literals of a get-value response in order.
func parseValues(s string) []uint64 {
	// response: ((ref val) (ref val) ...) where ref may itself be parenthesised (e.g. "(_ bv1 3)" never
	// appears as ref since constants are not asked). We scan for pairs at depth 2.
	var out []uint64
	depth := 0
	i := 0
	for i < len(s) {
		c := s[i]
		switch c {
		case '(':
			depth++
			if depth == 2 {
				// parse "ref val)"
				j := i + 1
				// skip ref (could be symbol)
				for j < len(s) && s[j] != ' ' {
					j++
				}
				for j < len(s) && s[j] == ' ' {
					j++
				}
				// value until matching ')'
				k := j
				d := 0
				for k < len(s) {
					if s[k] == '(' {
						d++
					} else if s[k] == ')' {
						if d == 0 {
							break
						}
						d--
					}
					k++
				}
				val := strings.TrimSpace(s[j:k])
				out = append(out, parseLit(val))
				i = k
				depth = 1
			}
		case ')':
			depth--
		}
		i++
	}
	return out
}

func parseLit(v string) uint64 {
	switch {
	case v == "true":
		return 1
	case v == "false":
		return 0
	case strings.HasPrefix(v, "#x"):
		n, _ := strconv.ParseUint(v[2:], 16, 64)
		return n
	case strings.HasPrefix(v, "#b"):
		n, _ := strconv.ParseUint(v[2:], 2, 64)
		return n
	case strings.HasPrefix(v, "(_ bv"):
		f := strings.Fields(v[5:])
		n, _ := strconv.ParseUint(f[0], 10, 64)
		return n
	}
	return 0
}

// ---- portfolio ----

type Portfolio struct {
	z3    *Backend
	bvint *Backend
	z3new *Backend
	stats map[string]*SolverStat
	tmoMS int
}

type SolverStat struct {
	Queries int     `json:"queries"`
	TimeS   float64 `json:"time_s"`
	Unknown int     `json:"unknown"`
}

func newPortfolio(timeoutMS int) (*Portfolio, error) {
	p := &Portfolio{stats: map[string]*SolverStat{}, tmoMS: timeoutMS}
	var err error
	if p.z3, err = startBackend("z3", timeoutMS); err != nil {
		return nil, err
	}
	if p.bvint, err = startBackend("cvc5-bvint", timeoutMS); err != nil {
		return nil, err
	}
	return p, nil
}

func (p *Portfolio) close() {
	for _, b := range []*Backend{p.z3, p.bvint, p.z3new} {
		if b != nil {
			b.kill()
		}
	}
}

func (p *Portfolio) record(b *Backend, d time.Duration, v Verdict) {
	s := p.stats[b.name]
	if s == nil {
		s = &SolverStat{}
		p.stats[b.name] = s
	}
	s.Queries++
	s.TimeS += d.Seconds()
	if v == Unknown {
		s.Unknown++
	}
}

// Check runs the query on the preferred back end, falling back on unknown.
func (p *Portfolio) Check(pc []*Term, extra []*Term, want []*Term) (Verdict, map[int]uint64, string) {
	nl := false
	for _, t := range pc {
		if t.nl {
			nl = true
		}
	}
	for _, t := range extra {
		if t.nl {
			nl = true
		}
	}
	order := []*Backend{p.z3, p.bvint}
	if nl {
		order = []*Backend{p.bvint, p.z3}
	}
	var why []string
	for _, b := range order {
		t0 := time.Now()
		v, m, msg := b.Check(pc, extra, want)
		p.record(b, time.Since(t0), v)
		if v != Unknown {
			return v, m, ""
		}
		why = append(why, b.name+": "+msg)
	}
	if p.z3new == nil {
		p.z3new, _ = startBackend("z3-new", p.tmoMS)
	}
	if p.z3new != nil {
		t0 := time.Now()
		v, m, msg := p.z3new.Check(pc, extra, want)
		p.record(p.z3new, time.Since(t0), v)
		if v != Unknown {
			return v, m, ""
		}
		why = append(why, "z3-new: "+msg)
	}
	return Unknown, nil, strings.Join(why, "; ")
}

func (p *Portfolio) statsSorted() []string {
	var ks []string
	for k := range p.stats {
		ks = append(ks, k)
	}
	sort.Strings(ks)
	return ks
}

package main

// If-conversion of small call-free diamonds: both arms of a symbolic branch are executed on clones
// up to the immediate post-dominator and the two states are merged with ite terms. This is an
// optimisation only: whenever a region does not qualify the engine forks instead.

import (
	"go/token"

	"golang.org/x/tools/go/ssa"
)

type mergeAbort struct{ why string }

type regionInfo struct {
	ok     bool
	join   *ssa.BasicBlock
	blocks map[*ssa.BasicBlock]bool
}

var regionCache = map[*ssa.BasicBlock]*regionInfo{}

func (e *Engine) mergeRegion(b *ssa.BasicBlock) *regionInfo {
	if r, ok := regionCache[b]; ok {
		return r
	}
	r := &regionInfo{}
	regionCache[b] = r
	fi := e.info(b.Parent())
	j := fi.ipdom[b.Index]
	if j < 0 {
		return r
	}
	join := b.Parent().Blocks[j]
	blocks := map[*ssa.BasicBlock]bool{}
	var stack []*ssa.BasicBlock
	stack = append(stack, b.Succs...)
	for len(stack) > 0 {
		x := stack[len(stack)-1]
		stack = stack[:len(stack)-1]
		if x == join || blocks[x] {
			continue
		}
		if x == b {
			return r // loops back to the branch itself
		}
		blocks[x] = true
		if len(blocks) > 16 {
			return r
		}
		stack = append(stack, x.Succs...)
	}
	// the region must be acyclic (considering only edges that stay inside it) and contain only
	// simple instructions
	for x := range blocks {
		seen := map[*ssa.BasicBlock]bool{}
		var st []*ssa.BasicBlock
		for _, s := range x.Succs {
			if blocks[s] {
				st = append(st, s)
			}
		}
		for len(st) > 0 {
			y := st[len(st)-1]
			st = st[:len(st)-1]
			if y == x {
				return r
			}
			if seen[y] {
				continue
			}
			seen[y] = true
			for _, s := range y.Succs {
				if blocks[s] {
					st = append(st, s)
				}
			}
		}
		for _, ins := range x.Instrs {
			if !mergeableInstr(ins) {
				return r
			}
		}
	}
	r.ok = true
	r.join = join
	r.blocks = blocks
	return r
}

func mergeableInstr(ins ssa.Instruction) bool {
	switch x := ins.(type) {
	case *ssa.BinOp:
		// division may raise an obligation but is fine
		return true
	case *ssa.UnOp:
		return x.Op != token.ARROW
	case *ssa.Convert, *ssa.ChangeType, *ssa.IndexAddr, *ssa.Index, *ssa.FieldAddr, *ssa.Field, *ssa.Slice,
		*ssa.Phi, *ssa.Store, *ssa.If, *ssa.Jump, *ssa.Extract, *ssa.DebugRef:
		return true
	case *ssa.Call:
		if b, ok := x.Call.Value.(*ssa.Builtin); ok {
			switch b.Name() {
			case "len", "cap", "min", "max":
				return true
			}
		}
		return false
	}
	return false
}

func (e *Engine) tryMerge(st *State, f *Frame, x *ssa.If, c *Term) (int, bool) {
	if e.cfg.NoMerge || st.inArm > 8 {
		return 0, false
	}
	ri := e.mergeRegion(f.blk)
	if !ri.ok {
		return 0, false
	}
	// both sides must be feasible, otherwise ordinary branching is cheaper
	if !e.feasible(st, c) || !e.feasible(st, Not(c)) {
		return 0, false
	}
	var arms [2]*State
	var preds [2]*ssa.BasicBlock
	ok := true
	func() {
		defer func() {
			if r := recover(); r != nil {
				if _, isAbort := r.(mergeAbort); isAbort {
					ok = false
					return
				}
				panic(r)
			}
		}()
		for k := 0; k < 2; k++ {
			a := st.clone()
			cond := c
			if k == 1 {
				cond = Not(c)
			}
			a.assume(cond)
			a.inArm = st.inArm + 1
			af := a.top()
			af.stopAt = ri.join
			af.stopped = false
			succ := af.blk.Succs[k]
			if succ == ri.join {
				af.prev = af.blk
				af.stopped = true
			} else {
				e.gotoBlock(a, af, succ)
			}
			steps := 0
			for !af.stopped {
				if a.top() != af {
					panic(mergeAbort{"call inside arm"})
				}
				r := e.step(a)
				steps++
				if r == stDone {
					// arm died (infeasible after an obligation) or violated: treat as dead arm
					a = nil
					break
				}
				if steps > 4000 {
					panic(mergeAbort{"arm too long"})
				}
			}
			if a != nil {
				preds[k] = af.prev
				af.stopAt = nil
				af.stopped = false
				a.inArm = st.inArm
			}
			arms[k] = a
		}
	}()
	if !ok {
		e.res.MergeFails++
		return 0, false
	}
	switch {
	case arms[0] == nil && arms[1] == nil:
		return stDone, true
	case arms[0] == nil || arms[1] == nil:
		k := 0
		if arms[0] == nil {
			k = 1
		}
		e.adopt(st, arms[k])
		nf := st.top()
		nf.blk = preds[k]
		e.gotoBlock(st, nf, ri.join)
		return stCont, true
	}
	m, mok := e.mergeStates(st, c, arms[0], arms[1], preds, ri.join)
	if !mok {
		e.res.MergeFails++
		return 0, false
	}
	e.adopt(st, m)
	e.res.Merges++
	return stCont, true
}

// adopt replaces the contents of st with those of src (st is the state object the run loop holds).
func (e *Engine) adopt(st *State, src *State) {
	id := st.id
	*st = *src
	st.id = id
}

func (e *Engine) mergeStates(base *State, c *Term, a, b *State, preds [2]*ssa.BasicBlock, join *ssa.BasicBlock) (*State, bool) {
	m := a // reuse a's containers
	// path condition: base prefix, then guarded extras
	n := len(base.pc)
	pc := append([]*Term(nil), base.pc...)
	for _, t := range a.pc[n:] {
		if t != c {
			pc = append(pc, Implies(c, t))
		}
	}
	nc := Not(c)
	for _, t := range b.pc[n:] {
		if t != nc {
			pc = append(pc, Implies(nc, t))
		}
	}
	// heap
	for id, oa := range a.heap {
		ob, ok := b.heap[id]
		if !ok {
			return nil, false
		}
		if oa == ob {
			continue
		}
		v, ok := mergeVal(c, oa.val, ob.val)
		if !ok {
			return nil, false
		}
		no := *oa
		no.val = v
		m.heap[id] = &no
	}
	if len(b.heap) != len(a.heap) {
		return nil, false
	}
	// phis of the join block
	fa, fb := a.top(), b.top()
	var phis []*ssa.Phi
	var vals []Value
	for _, ins := range join.Instrs {
		phi, ok := ins.(*ssa.Phi)
		if !ok {
			break
		}
		var va, vb Value
		for i, p := range join.Preds {
			if p == preds[0] {
				va = e.eval(a, fa, phi.Edges[i])
			}
			if p == preds[1] {
				vb = e.eval(b, fb, phi.Edges[i])
			}
		}
		v, ok := mergeVal(c, va, vb)
		if !ok {
			return nil, false
		}
		phis = append(phis, phi)
		vals = append(vals, v)
	}
	// other state components must agree
	if len(a.nondets) != len(b.nondets) || len(a.events) != len(b.events) || len(a.frames) != len(b.frames) {
		return nil, false
	}
	m.pc = pc
	m.steps = a.steps + b.steps - base.steps
	for k, v := range b.known {
		if _, ok := m.known[k]; !ok {
			delete(m.known, k)
		}
		_ = v
	}
	for k := range m.known {
		if _, ok := b.known[k]; !ok {
			delete(m.known, k)
		}
	}
	for i, phi := range phis {
		fa.regs[phi] = vals[i]
	}
	fa.prev = preds[0]
	fa.blk = join
	fa.ip = len(phis)
	m.path = append(base.path[:len(base.path):len(base.path)], "merge@"+join.String())
	return m, true
}

func mergeVal(c *Term, a, b Value) (Value, bool) {
	if a == b {
		return a, true
	}
	switch x := a.(type) {
	case nil:
		return nil, b == nil
	case *Term:
		y, ok := b.(*Term)
		if !ok || x.w != y.w {
			return nil, false
		}
		return Ite(c, x, y), true
	case *BytesVal:
		y, ok := b.(*BytesVal)
		if !ok {
			return nil, false
		}
		n := x.n
		if x.n != y.n {
			n = Ite(c, x.n, y.n)
		}
		return &BytesVal{mem: memIte(c, x.mem, y.mem), n: n}, true
	case *StructVal:
		y, ok := b.(*StructVal)
		if !ok || len(x.f) != len(y.f) {
			return nil, false
		}
		f := make([]Value, len(x.f))
		for i := range f {
			v, ok := mergeVal(c, x.f[i], y.f[i])
			if !ok {
				return nil, false
			}
			f[i] = v
		}
		return &StructVal{f}, true
	case *ArrayVal:
		y, ok := b.(*ArrayVal)
		if !ok || len(x.e) != len(y.e) {
			return nil, false
		}
		f := make([]Value, len(x.e))
		for i := range f {
			v, ok := mergeVal(c, x.e[i], y.e[i])
			if !ok {
				return nil, false
			}
			f[i] = v
		}
		return &ArrayVal{f}, true
	case *TupleVal:
		y, ok := b.(*TupleVal)
		if !ok || len(x.e) != len(y.e) {
			return nil, false
		}
		f := make([]Value, len(x.e))
		for i := range f {
			v, ok := mergeVal(c, x.e[i], y.e[i])
			if !ok {
				return nil, false
			}
			f[i] = v
		}
		return &TupleVal{f}, true
	case *PtrVal:
		y, ok := b.(*PtrVal)
		if !ok || x.obj != y.obj || !samePath(x.path, y.path) || (x.idx == nil) != (y.idx == nil) || x.fn != y.fn {
			return nil, false
		}
		if x.idx == nil {
			return x, true
		}
		return &PtrVal{obj: x.obj, path: x.path, idx: Ite(c, x.idx, y.idx)}, true
	case *SliceVal:
		y, ok := b.(*SliceVal)
		if !ok || x.obj != y.obj || !samePath(x.path, y.path) {
			return nil, false
		}
		if x.obj == 0 {
			return x, true
		}
		return &SliceVal{obj: x.obj, path: x.path, off: Ite(c, x.off, y.off), len: Ite(c, x.len, y.len), cap: Ite(c, x.cap, y.cap)}, true
	case *StrVal:
		y, ok := b.(*StrVal)
		if ok && x.conc && y.conc && x.s == y.s {
			return x, true
		}
		return nil, false
	case *IfaceVal:
		y, ok := b.(*IfaceVal)
		if !ok {
			return nil, false
		}
		if x.t == nil && y.t == nil {
			return x, true
		}
		if x.t == nil || y.t == nil || x.t != y.t {
			return nil, false
		}
		v, ok := mergeVal(c, x.v, y.v)
		if !ok {
			return nil, false
		}
		return &IfaceVal{t: x.t, v: v}, true
	case *MapVal:
		y, ok := b.(*MapVal)
		return x, ok && x.obj == y.obj
	case *ChanVal:
		y, ok := b.(*ChanVal)
		return x, ok && x.obj == y.obj
	case *FuncVal:
		y, ok := b.(*FuncVal)
		return x, ok && x.fn == y.fn && x.builtin == y.builtin && x.nilf == y.nilf && len(x.bind) == 0 && len(y.bind) == 0
	case *MapContent:
		return nil, false
	}
	return nil, false
}

package main

import "golang.org/x/tools/go/ssa"

func (e *Engine) tryMerge(st *State, f *Frame, x *ssa.If, c *Term) (int, bool) { return 0, false }

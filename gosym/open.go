package main

// Open mode (lazy heap, havocked callees) — see DESIGN.md §2.8.

import (
	"go/types"

	"golang.org/x/tools/go/ssa"
)

type OpenCfg struct {
	Inline   []string          `json:"inline"`
	Havoc    []string          `json:"havoc"`
	MaybeNil []string          `json:"maybe_nil"`
	Contract map[string]string `json:"contract"`
}

type OpenState struct{}

func newOpenState() *OpenState         { return &OpenState{} }
func (o *OpenState) clone() *OpenState { c := *o; return &c }

type LazyIface struct{ id int }

func (e *Engine) openPathEnd(st *State)                 {}
func (e *Engine) openPanicEnd(st *State, p *PanicInfo) {}
func (e *Engine) openObligation(st *State, id, msg, where string) {
}
func (e *Engine) openUnlockUnheld(st *State, p *PtrVal, nm string, ins ssa.Instruction) bool {
	return false
}
func (e *Engine) openWaitPoint(st *State, what string, ins ssa.Instruction) {}
func (e *Engine) openCall(st *State, f *Frame, fn *ssa.Function, fv *FuncVal, args []Value, ins ssa.Instruction, ret func(Value) int) (int, bool) {
	return 0, false
}
func (e *Engine) openGo(st *State, f *Frame, x *ssa.Go) int { unsupp("go"); return stDone }
func (e *Engine) lazyInvoke(st *State, fv *FuncVal, args []Value, ins ssa.Instruction, ret func(Value) int) int {
	unsupp("lazy invoke")
	return stDone
}
func (e *Engine) lazyTouch(st *State, p *PtrVal, field int) {}
func (e *Engine) lazyTypeAssert(st *State, f *Frame, x *ssa.TypeAssert, iv *IfaceVal, l *LazyIface) int {
	unsupp("lazy type assert")
	return stDone
}
func (e *Engine) lazyMapLookup(st *State, f *Frame, x *ssa.Lookup, mv *MapVal, mc *MapContent, key Value, elemT types.Type) int {
	unsupp("lazy map")
	return stDone
}
func (e *Engine) lazyMapRange(st *State, m *MapVal, mc *MapContent)  {}
func (e *Engine) lazyMapLen(st *State, m *MapVal) *Term              { return c64(0) }
func (e *Engine) lazyMapDelete(st *State, m *MapVal, key Value)      {}
func (e *Engine) lazyNew(st *State, f *Frame, fn *ssa.Function, args []Value, ret func(Value) int) int {
	unsupp("lazy new")
	return stDone
}

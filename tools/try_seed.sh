#!/bin/bash
# usage: try_seed.sh <patch.diff> <PROP> [check.py args...]  -- apply seed to /repo, run check, undo
set -u
patch=$1; prop=$2; shift 2
cd /repo || exit 2
if git apply --check "$patch" 2>/dev/null; then git apply "$patch";
elif git apply --3way "$patch" 2>/dev/null && [ -z "$(git diff --name-only --diff-filter=U)" ]; then git reset -q;
else echo "PATCH DOES NOT APPLY: $patch"; git checkout -- . ; exit 3; fi
cd /verif && ./check.py "$prop" "$@" 2>/dev/null | grep -E "^(VIOLATION|SUMMARY|UNCONFIRMED|INCONCLUSIVE|KNOWN)" | cut -c1-260
rc=${PIPESTATUS[0]}
git -C /repo checkout -- .
git -C /repo status --short | head -3
echo "exit=$rc"

#!/usr/bin/env python3
"""Translation-validation set-up for C15: build capnpc-go from the repository's current tree, run it on
stored CodeGeneratorRequests into a scratch module, and emit the schema-derived harnesses (c15tv).
Prints a JSON list of check groups. usage: c15_prepare.py <workdir> <repo>"""
import sys, os, subprocess, json, shutil, re, glob
W, REPO = sys.argv[1], sys.argv[2]
V = os.path.dirname(os.path.dirname(os.path.abspath(__file__)))
ENV = dict(os.environ, GOFLAGS="-mod=mod", GOPROXY="off", GOSUMDB="off", GOTOOLCHAIN="local")
def run(cmd, **kw):
    r = subprocess.run(cmd, env=ENV, capture_output=True, text=True, **kw)
    if r.returncode != 0:
        sys.stderr.write("c15_prepare: %s failed: %s\n" % (cmd, (r.stdout + r.stderr)[-600:]))
    return r
gen = os.path.join(W, "capnpc-go-bin")
if run(["go", "build", "-o", gen, "./capnpc-go"], cwd=REPO).returncode != 0:
    print("[]"); sys.exit(0)
tv = os.path.join(V, "bin", "c15tv")
if not os.path.exists(tv) or os.path.getmtime(tv) < os.path.getmtime(os.path.join(V, "c15tv", "main.go")):
    run(["go", "build", "-o", tv, "."], cwd=os.path.join(V, "c15tv"))
mod = os.path.join(W, "c15mod")
os.makedirs(mod, exist_ok=True)
open(os.path.join(mod, "go.mod"), "w").write("module c15gen\n\ngo 1.16\n\nrequire capnproto.org/go/capnp/v3 v3.0.0\n\nreplace capnproto.org/go/capnp/v3 => %s\n" % REPO)
shutil.copy(os.path.join(REPO, "go.sum"), os.path.join(mod, "go.sum"))
groups = []
for name in ["util", "group", "aircraft", "rpc"]:
    reqf = os.path.join(REPO, "capnpc-go", "testdata", name + ".capnp.out")
    if not os.path.exists(reqf):
        continue
    d = os.path.join(mod, name)
    os.makedirs(d, exist_ok=True)
    r = subprocess.run([gen], cwd=d, stdin=open(reqf, "rb"), env=ENV, capture_output=True, text=True)
    outs = glob.glob(d + "/**/*.capnp.go", recursive=True)
    if r.returncode != 0 or len(outs) != 1:
        sys.stderr.write("c15_prepare: generator failed on %s: %s\n" % (name, r.stderr[-300:]))
        continue
    src = open(outs[0]).read()
    pkg = re.search(r"^package (\w+)", src, re.M).group(1)
    os.remove(outs[0])
    gfile = os.path.join(d, "gen.go")
    open(gfile, "w").write(src)
    # determinism: a second run must give identical bytes (auxiliary, concrete comparison)
    r2 = subprocess.run([gen], cwd=d, stdin=open(reqf, "rb"), env=ENV, capture_output=True, text=True)
    outs2 = [f for f in glob.glob(d + "/**/*.capnp.go", recursive=True)]
    same = len(outs2) == 1 and open(outs2[0]).read() == src
    for f in outs2:
        os.remove(f)
    if run(["go", "build", "./" + name + "/"], cwd=mod).returncode != 0:
        groups.append({"error": "generated code for %s does not compile" % name})
        continue
    h = os.path.join(W, "c15h", name)
    os.makedirs(h, exist_ok=True)
    r = run([tv, reqf, gfile, pkg, os.path.join(h, "zz_verif_tv.go")])
    if r.returncode != 0:
        continue
    emitted, skipped = r.stdout.split()[:2]
    for f in ["zz_verif_rt.go", "zz_verif_rt_native.go", "zz_verif_replay_test.go"]:
        s = open(os.path.join(V, "harness", "capnp", f)).read().replace("package capnp\n", "package %s\n" % pkg, 1)
        open(os.path.join(h, f), "w").write(s)
    s = open(os.path.join(V, "harness", "tvcommon", "zz_verif_tv_common.go")).read().replace("package capnp\n", "package %s\n" % pkg, 1)
    open(os.path.join(h, "zz_verif_tv_common.go"), "w").write(s)
    groups.append({"repo": mod, "pkg": name, "harness_dir_abs": h, "run": "VH_TV_.*", "tv": {"request": name, "emitted": int(emitted), "skipped": int(skipped), "deterministic": same},
                   "cfg": {"*": {"timeout_s": 600, "unwind": 16, "concretize": 8}}, "shards": 4})
print(json.dumps(groups))

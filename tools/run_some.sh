#!/bin/bash
# usage: run_some.sh <tier> C14 C16 ...  -- like run_all.sh for the given properties
tier=$1; shift
cd "$(dirname "$0")/.."
for p in "$@"; do
  s=$(date +%s)
  out=$(./check.py $p --tier $tier 2>/dev/null | grep -E "^(SUMMARY|VIOLATION|UNCONFIRMED|INCONCLUSIVE|KNOWN)" | cut -c1-220)
  echo "== $p ($(( $(date +%s) - s ))s)"; echo "$out"
done

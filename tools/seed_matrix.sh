#!/bin/bash
# usage: seed_matrix.sh <outfile> <seed> <PROP> [check args] ; ...   (reads lines from stdin: "seedpath PROP args")
# Runs each seed in a scratch worktree (/tmp/seedrepo) so that /repo stays untouched.
out=$1
W=${SEEDW:-/tmp/seedrepo}
EV=${W}_ev; RP=${W}_rep
git -C /repo worktree remove --force $W 2>/dev/null
git -C /repo worktree add -q --detach $W HEAD
mkdir -p $EV $RP
while read seed prop args; do
  [ -z "$seed" ] && continue
  patch=/verif/seeded_pending/$seed/patch.diff
  cd $W && git checkout -q -- . 
  if git apply --check "$patch" 2>/dev/null; then git apply "$patch";
  elif git apply --3way "$patch" 2>/dev/null && [ -z "$(git diff --name-only --diff-filter=U)" ]; then git reset -q;
  else echo "== $seed $prop: PATCH DOES NOT APPLY" >> $out; git checkout -q -- .; continue; fi
  r=$(cd /verif && VERIF_REPO=$W VERIF_EVIDENCE_DIR=$EV VERIF_REPLAY_DIR=$RP VERIF_JOBS=${SEEDJOBS:-6} timeout 1500 ./check.py $prop $args 2>/dev/null | grep -E "^(VIOLATION|SUMMARY|INCONCLUSIVE)" | cut -c1-230)
  echo "== $seed $prop $args" >> $out; echo "$r" >> $out
done
cd /; git -C /repo worktree remove --force $W

#!/bin/bash
# usage: tryseeds.sh "<PROP> [check.py args]" seed-Cxx/mK ...   -- each seed in a scratch worktree
spec=$1; shift
for s in "$@"; do
  git -C /repo worktree remove --force /tmp/mutrepo 2>/dev/null
  git -C /repo worktree add --detach /tmp/mutrepo HEAD -q
  git -C /tmp/mutrepo apply /verif/seeded_pending/$s/patch.diff || { echo "== $s: does not apply"; continue; }
  echo "== $s vs $spec"
  (cd /verif && VERIF_REPO=/tmp/mutrepo VERIF_EVIDENCE_DIR=/tmp/ev_dev VERIF_REPLAY_DIR=/tmp/rep_dev ./check.py $spec --jobs 8 2>&1 | grep -E "VIOLATION|UNCONF|SUMMARY|INCONCL" | cut -c1-260)
done
git -C /repo worktree remove --force /tmp/mutrepo

#!/bin/bash
# usage: import_round.sh <round> <offset> C01 C03 ...  -- copies /tmp/seed<round>-Cxx/m{1,2,3} to seeded_pending/seed-Cxx/m{1+offset,...}
r=$1; off=$2; shift 2
for p in "$@"; do
  for k in 1 2 3; do
    src=/tmp/seed$r-$p/m$k; dst=/verif/seeded_pending/seed-$p/m$((k+off))
    [ -d "$src" ] || { echo "missing $src"; continue; }
    mkdir -p $dst && cp $src/patch.diff $src/*_test.go $src/notes.txt $dst/ 2>/dev/null
    echo "$dst: $(ls $dst | tr '\n' ' ')"
  done
done

#!/usr/bin/env python3
"""Split a GOSYM_SMTLOG file into standalone queries and time them: slowq.py LOG [solver cmd...]"""
import sys, subprocess, time
log = open(sys.argv[1]).read().split('\n')
cmd = sys.argv[2:] or ['z3', '-T:10']
defs = []; cur = []; queries = []
for l in log:
    if l.startswith('(push'): cur = []; continue
    if l.startswith('(pop'): continue
    if l.startswith('(check-sat'): queries.append((list(defs), list(cur))); continue
    if l.startswith('(get-value'): continue
    if l.startswith('(assert'): cur.append(l)
    else: defs.append(l)
print(len(queries), 'queries')
n = 0
for i, (d, c) in enumerate(queries):
    open('/tmp/q.smt2', 'w').write('\n'.join(d + c + ['(check-sat)']))
    t = time.time()
    r = subprocess.run(cmd + ['/tmp/q.smt2'], capture_output=True, text=True).stdout.strip()[:30]
    dt = time.time() - t
    if dt > 1.5:
        print(i, r, round(dt, 1), len(c))
        open('/tmp/slow%d.smt2' % i, 'w').write('\n'.join(d + c + ['(check-sat)']))
        n += 1
        if n >= 4: break

#!/bin/bash
# run every claimed check's quick (or given tier) command in /verif against /repo; summary to stdout
tier=${1:-quick}
cd "$(dirname "$0")/.."
for p in $(python3 -c "import json; print(' '.join(c['property_id'] for c in json.load(open('MANIFEST.json'))['checks']))"); do
  s=$(date +%s)
  out=$(./check.py $p --tier $tier 2>/dev/null | grep -E "^(SUMMARY|VIOLATION|UNCONFIRMED|INCONCLUSIVE|KNOWN|BOUNDED)" | cut -c1-220)
  rc=$?
  echo "== $p ($(( $(date +%s) - s ))s)"; echo "$out"
done

#!/usr/bin/env python3
"""Regenerate MANIFEST.json from checks/*.json and tools/manifest_text.json."""
import json, os, glob
V = '/verif'
props = [json.loads(l) for l in open(V + '/properties.jsonl')]
text = json.load(open(V + '/tools/manifest_text.json'))
checks = []
na = []
for p in props:
    pid = p['id']
    spec_path = V + '/checks/%s.json' % pid
    if os.path.exists(spec_path) and pid in text.get('claims', {}):
        t = text['claims'][pid]
        checks.append({
            "property_id": pid,
            "quick_cmd": "./check.py %s --tier quick" % pid,
            "thorough_cmd": "./check.py %s --tier thorough" % pid,
            "evidence_file": "evidence/%s.json" % pid,
            "replay_cmd_template": "./replay.py {path}",
            "engine": "gosym",
            "level_claimed": {"category": t.get("category", "other"), "text": t["text"], "design_ref": t.get("design_ref", "DESIGN.md section 4 " + pid)},
            "level_note": t["note"],
            "technique": t.get("technique", "bounded symbolic execution of go/ssa + SMT (z3/cvc5), counterexamples replayed natively"),
        })
    else:
        na.append({"property_id": pid, "reason": text.get('not_applicable', {}).get(pid, "check not built yet (work in progress; see DESIGN.md section 4)")})
m = {
    "version": 1,
    "setup_cmd": "cd /verif/gosym && GOFLAGS=-mod=mod GOPROXY=off GOSUMDB=off GOTOOLCHAIN=local go build -o /verif/bin/gosym . && cd /verif && tools/sync_rt.sh",
    "hooks": {"guard": "verif", "enable": "no hook code is committed in /repo: harnesses are injected in-package through go/packages Overlay (symbolic run, build tag verif set) and go test -overlay (native replay)",
              "baseline_off_cmd": "cd /repo && go test -vet=off -count=1 -timeout 25m ./...", "source_commits": [], "add_only": True},
    "engines": [{"name": "gosym", "path": "gosym", "serves_properties": [c["property_id"] for c in checks],
                 "kind_free_text": "own Go SSA (x/tools v0.29.0) -> SMT-LIB2 symbolic executor; z3 4.8.12, cvc5 1.0, z3 5.1.0 raced per query; multiplication abstraction with exact re-check; native replay of every counterexample"}],
    "checks": checks,
    "not_applicable": na,
    "notes": text.get("notes", ""),
}
json.dump(m, open(V + '/MANIFEST.json', 'w'), indent=1)
print(len(checks), 'checks,', len(na), 'not applicable')

#!/bin/bash
# regenerate the harness runtime files of every harness package from the capnp master copies
set -e
cd /verif/harness
for d in */; do
  d=${d%/}
  [ "$d" = capnp ] && continue
  [ -f $d/PACKAGE ] || continue
  pkg=$(cat $d/PACKAGE)
  for f in zz_verif_rt.go zz_verif_rt_native.go zz_verif_replay_test.go; do
    sed "s/^package capnp$/package $pkg/" capnp/$f > $d/$f
  done
done

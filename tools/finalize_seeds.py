#!/usr/bin/env python3
"""Copy confirmed seeded changes from seeded_pending/ to seeded/<Cxx>-m<k>/ with meta.json, and write
seeded/README.md. The detection map (which check catches which seed) is tools/seed_detection.json,
filled from the seed-matrix runs."""
import json, os, glob, shutil
V = '/verif'
det = json.load(open(V + '/tools/seed_detection.json'))
rows = []
shutil.rmtree(V + '/seeded', ignore_errors=True)
os.makedirs(V + '/seeded')
for d in sorted(glob.glob(V + '/seeded_pending/seed-*/m*')):
    prop = d.split('/')[-2].replace('seed-', '')
    m = d.split('/')[-1]
    sid = '%s-%s' % (prop, m)
    cf = os.path.join(d, 'confirm.json')
    if not os.path.exists(cf):
        continue
    conf = json.load(open(cf))
    ok = conf.get('applies') and conf.get('builds') and conf.get('existing_tests_pass_with_change') and conf.get('demo_fails_with_change') and conf.get('demo_passes_on_clean_tree')
    if not ok:
        rows.append((sid, prop, 'NOT KEPT (confirmation failed: %s)' % {k: v for k, v in conf.items() if isinstance(v, bool)}, '', ''))
        continue
    out = os.path.join(V, 'seeded', sid)
    os.makedirs(out)
    shutil.copy(os.path.join(d, 'patch.diff'), out)
    for f in glob.glob(d + '/*_test.go'):
        shutil.copy(f, out)
    if os.path.exists(os.path.join(d, 'patch_orig.diff')):
        shutil.copy(os.path.join(d, 'patch_orig.diff'), out)
    notes = open(os.path.join(d, 'notes.txt')).read() if os.path.exists(os.path.join(d, 'notes.txt')) else ''
    dd = det.get(sid, {})
    meta = {
        "id": sid, "breaks_property": prop,
        "files_changed": conf.get('files'),
        "needs_to_manifest": dd.get('needs', ''),
        "confirmed_in_scratch_worktree": {k: v for k, v in conf.items() if isinstance(v, bool)},
        "what_was_run": "tools/confirm_seeds.py: git apply in a scratch worktree of /repo HEAD; go build ./...; go test -vet=off -count=1 over ., rpc, server, pogs, encoding/text, internal/packed, capnpc-go with the change; the demonstration test with the change (fails) and on the clean tree (passes)",
        "caught_by": dd.get('caught_by'), "caught_how": dd.get('how', ''),
        "author_notes": notes[:3000],
    }
    json.dump(meta, open(os.path.join(out, 'meta.json'), 'w'), indent=1)
    rows.append((sid, prop, dd.get('caught_by') or 'NOT CAUGHT', dd.get('how', ''), dd.get('needs', '')))
with open(V + '/seeded/README.md', 'w') as f:
    f.write("# Seeded changes\n\nEach directory holds a change to capnproto/go-capnproto2 written by an independent sub-agent that saw only the property text: `patch.diff` (against /repo HEAD), the demonstration test, `meta.json`. All were confirmed in a scratch worktree (`tools/confirm_seeds.py`): the tree builds, the existing tests pass with the change, the demonstration fails with it and passes without it. Detection was measured with `tools/seed_matrix.sh` (the check run against a scratch worktree with the patch applied).\n\n| seed | property | caught by | how | needs to manifest |\n|---|---|---|---|---|\n")
    for r in rows:
        f.write("| %s | %s | %s | %s | %s |\n" % r)
    n = len([r for r in rows if not r[2].startswith('NOT')])
    f.write("\n%d of %d seeded changes are caught by the check of their own property (rounds: m1-m2, m3-m5, m6-m8, ...; each later round was written after the earlier rounds' checks existed and told to avoid their functions). Not caught: the changes that break C19 (declared not applicable) and the ones whose row says why.\n" % (n, len(rows)))
print(len(rows), 'seeds')

#!/bin/bash
# usage: import_round2.sh C01 C03 ...  -- copies /tmp/seed2-Cxx/m{1,2,3} to seeded_pending/seed-Cxx/m{3,4,5}
for p in "$@"; do
  for k in 1 2 3; do
    src=/tmp/seed2-$p/m$k; dst=/verif/seeded_pending/seed-$p/m$((k+2))
    [ -d "$src" ] || { echo "missing $src"; continue; }
    mkdir -p $dst && cp $src/patch.diff $src/*_test.go $src/notes.txt $dst/ 2>/dev/null
    ls $dst | tr '\n' ' '; echo
  done
done

#!/usr/bin/env python3
"""Confirm every seeded change in a scratch worktree of /repo's HEAD: the patch applies, the tree builds,
the existing tests of the affected packages pass with it, the demonstration fails with it and passes
without it. Writes seeded_pending/<seed>/<m>/confirm.json."""
import os, subprocess, json, glob, re, sys, shutil
ENV = dict(os.environ, GOFLAGS="-mod=mod", GOPROXY="off", GOSUMDB="off", GOTOOLCHAIN="local")
W = os.environ.get("CONFIRM_W", "/tmp/confirmrepo")
def sh(cmd, cwd=None, timeout=1500):
    try:
        r = subprocess.run(cmd, shell=True, cwd=cwd, env=ENV, capture_output=True, text=True, timeout=timeout)
        return r.returncode, (r.stdout + r.stderr)
    except subprocess.TimeoutExpired:
        return 124, "timeout"
sh("git -C /repo worktree remove --force %s" % W)
sh("git -C /repo worktree add -q --detach %s HEAD" % W)
only = sys.argv[1:] 
for d in sorted(glob.glob("/verif/seeded_pending/seed-*/m*")):
    tag = "/".join(d.split("/")[-2:])
    if only and not any(o in tag for o in only):
        continue
    out = {"seed": tag}
    patch = os.path.join(d, "patch.diff")
    demos = [f for f in glob.glob(d + "/*_test.go")]
    notes = open(os.path.join(d, "notes.txt")).read() if os.path.exists(os.path.join(d, "notes.txt")) else ""
    sh("git checkout -q -- . && git clean -fdq", cwd=W)
    rc, o = sh("git apply --check %s" % patch, cwd=W)
    if rc != 0:
        rc, o = sh("git apply --3way %s && git reset -q" % patch, cwd=W)
        if rc != 0:
            out["applies"] = False
            json.dump(out, open(os.path.join(d, "confirm.json"), "w"), indent=1)
            print(tag, "DOES NOT APPLY")
            sh("git checkout -q -- . && git clean -fdq", cwd=W)
            continue
    else:
        sh("git apply %s" % patch, cwd=W)
    out["applies"] = True
    rc, o = sh("git diff --name-only", cwd=W)
    files = o.split()
    out["files"] = files
    pkgs = sorted({"./" + os.path.dirname(f) if os.path.dirname(f) else "." for f in files})
    # demo package dir: from the demo file's package clause + notes
    demo = demos[0] if demos else None
    demodir = "."
    if demo:
        src = open(demo).read()
        pk = re.search(r"^package (\w+)", src, re.M).group(1)
        m = {"capnp": ".", "capnp_test": ".", "rpc": "rpc", "rpc_test": "rpc", "packed": "internal/packed", "packed_test": "internal/packed", "text": "encoding/text", "text_test": "encoding/text",
             "pogs": "pogs", "pogs_test": "pogs", "main": "capnpc-go", "strquote": "internal/strquote", "server": "server", "server_test": "server", "schemas": "schemas", "schemas_test": "schemas"}
        demodir = m.get(pk, ".")
    rc, o = sh("go build ./...", cwd=W)
    out["builds"] = rc == 0
    testpk = sorted(set(pkgs + [". ", "./rpc/", "./server/", "./pogs/", "./encoding/text/", "./internal/packed/", "./capnpc-go/"]))
    rc, o = sh("go test -vet=off -count=1 -timeout 20m " + " ".join(testpk), cwd=W)
    out["existing_tests_pass_with_change"] = rc == 0
    if rc != 0:
        out["existing_tests_output"] = o[-600:]
    if demo:
        shutil.copy(demo, os.path.join(W, demodir, os.path.basename(demo)))
        rc, o = sh("go test -vet=off -count=1 -timeout 5m -run 'Demo|demo' ./%s/" % demodir, cwd=W)
        if "no tests to run" in o:
            rc, o = sh("go test -vet=off -count=1 -timeout 5m ./%s/" % demodir, cwd=W)
        out["demo_fails_with_change"] = rc != 0
        out["demo_with_change_tail"] = o[-300:]
        sh("git checkout -q -- .", cwd=W)
        rc, o = sh("go test -vet=off -count=1 -timeout 5m -run 'Demo|demo' ./%s/" % demodir, cwd=W)
        if "no tests to run" in o:
            rc, o = sh("go test -vet=off -count=1 -timeout 5m ./%s/" % demodir, cwd=W)
        out["demo_passes_on_clean_tree"] = rc == 0
        if rc != 0:
            out["demo_clean_tail"] = o[-300:]
    json.dump(out, open(os.path.join(d, "confirm.json"), "w"), indent=1)
    print(tag, {k: v for k, v in out.items() if isinstance(v, bool)})
    sh("git checkout -q -- . && git clean -fdq", cwd=W)
sh("git -C /repo worktree remove --force %s" % W)

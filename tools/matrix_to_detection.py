#!/usr/bin/env python3
"""Fill tools/seed_detection.json from seed-matrix outputs (files given as arguments): for every seed
the first reproduced (or path-witnessed) VIOLATION of a run decides caught_by / how."""
import json, re, sys
p = '/verif/tools/seed_detection.json'
det = json.load(open(p))
cur = None
seen = {}
for f in sys.argv[1:]:
    for line in open(f):
        m = re.match(r'== (seed-(C\d+)/m(\d+)) (C\d+)', line)
        if m:
            cur = ('%s-m%s' % (m.group(2), m.group(3)), m.group(4))
            continue
        m = re.match(r'VIOLATION property=(C\d+) replay=\S+ obligation=(\S+) harness=(\S+) \((.*)', line)
        if m and cur:
            sid, prop = cur
            if sid in seen:
                continue
            kind = 'replayed' if m.group(4).startswith('reproduced') else 'path witness'
            seen[sid] = {'caught_by': prop, 'how': '%s: %s (%s)' % (m.group(3), m.group(2), kind)}
for sid, v in seen.items():
    old = det.get(sid, {})
    if old.get('caught_by') and sid.split('-')[0] == old['caught_by']:
        continue  # keep an existing entry that names the seed's own property
    own = sid.split('-')[0]
    if old.get('caught_by') and v['caught_by'] != own:
        continue
    det.setdefault(sid, {}).update(v)
    det[sid].setdefault('needs', '')
json.dump(det, open(p, 'w'), indent=1)
print(len(seen), 'seeds with violations;', len(det), 'entries')

package schemas

// Native bodies of the harness intrinsics, used only for replaying a solver counterexample
// against the real build (go test -overlay). Values are popped from the recorded model.

import (
	"encoding/json"
	"fmt"
	"math"
	"os"
	"runtime"
	"strconv"
	"sync"
	"time"
	"unsafe"
)

type vNondetRec struct {
	Kind  string `json:"kind"`
	Val   uint64 `json:"val"`
	Bytes []int  `json:"bytes"`
}

type vCexFile struct {
	Obligation string       `json:"obligation"`
	Kind       string       `json:"kind"`
	Harness    string       `json:"harness"`
	Nondets    []vNondetRec `json:"nondets"`
}

type vSkip struct{ why string }
type vFail struct{ id string }

var vState struct {
	cex    vCexFile
	pos    int
	events map[string]int
	alloc0 uint64
	failed []string
}

func vLoad(path string) error {
	b, err := os.ReadFile(path)
	if err != nil {
		return err
	}
	vState.pos = 0
	vState.events = map[string]int{}
	vState.failed = nil
	if err := json.Unmarshal(b, &vState.cex); err != nil {
		return err
	}
	var ms runtime.MemStats
	runtime.ReadMemStats(&ms)
	vState.alloc0 = ms.TotalAlloc
	return nil
}

func vPop(kind string) vNondetRec {
	if vState.pos >= len(vState.cex.Nondets) {
		panic(vSkip{"replay ran out of recorded values"})
	}
	r := vState.cex.Nondets[vState.pos]
	vState.pos++
	if r.Kind != kind {
		panic(vSkip{fmt.Sprintf("replay diverged: want %s have %s", kind, r.Kind)})
	}
	return r
}

func vNondetU8() uint8   { return uint8(vPop("u8").Val) }
func vNondetU16() uint16 { return uint16(vPop("u16").Val) }
func vNondetU32() uint32 { return uint32(vPop("u32").Val) }
func vNondetU64() uint64 { return vPop("u64").Val }
func vNondetInt() int    { return int(int64(vPop("int").Val)) }
func vNondetBool() bool  { return vPop("bool").Val != 0 }

func vNondetBytesCap(n, c int) []byte {
	r := vPop("bytes")
	if c < 0 || c > 1<<28 {
		panic(vSkip{"byte array too large to replay"})
	}
	b := make([]byte, c)
	for i, v := range r.Bytes {
		if i < c {
			b[i] = byte(v)
		}
	}
	return b[:n:c]
}

func vNondetBytes(n int) []byte { return vNondetBytesCap(n, n) }

func vAssume(c bool) {
	if !c {
		panic(vSkip{"assumption false under the recorded model"})
	}
}

func vAssert(c bool, id string) {
	if !c {
		vState.failed = append(vState.failed, id)
		panic(vFail{id})
	}
}

func vReach(id string)            {}
func vTag(name string, v uint64)  {}
func vRegion(name string, c bool) {}
func vEvent(name string)          { vState.events[name]++ }
func vEventCount(name string) int { return vState.events[name] }

func vPanics(f func()) (p bool) {
	defer func() {
		if r := recover(); r != nil {
			switch r.(type) {
			case vSkip, vFail:
				panic(r)
			}
			p = true
		}
	}()
	f()
	return false
}

func vAllocSum() uint64 {
	var ms runtime.MemStats
	runtime.ReadMemStats(&ms)
	return ms.TotalAlloc - vState.alloc0
}
func vAllocMax() uint64 { return vAllocSum() }

func vSameArray(a, b []byte) bool {
	if cap(a) == 0 || cap(b) == 0 {
		return false
	}
	pa := uintptr(unsafe.Pointer(&a[:1][0]))
	pb := uintptr(unsafe.Pointer(&b[:1][0]))
	// same backing array if the ranges [p, p+cap) overlap
	return pa < pb+uintptr(cap(b)) && pb < pa+uintptr(cap(a))
}
func vSliceOff(a []byte) int { return 0 }
func vLocksHeld() int        { return 0 }

func vWithin(inner, outer []byte) bool {
	if cap(inner) == 0 {
		return len(inner) == 0
	}
	if cap(outer) == 0 {
		return false
	}
	pi := uintptr(unsafe.Pointer(&inner[:1][0]))
	po := uintptr(unsafe.Pointer(&outer[:1][0]))
	return pi >= po && pi+uintptr(len(inner)) <= po+uintptr(len(outer))
}

func vMutexFree(mu *sync.Mutex) bool {
	if mu.TryLock() {
		mu.Unlock()
		return true
	}
	return false
}

func vFmtArg(k int) uint64 { panic(vSkip{"vFmtArg has no native counterpart"}) }

// natively the two threads run one after the other (interleavings cannot be forced)
func vPar(f, g func()) { f(); g() }
func vNoBlock(on bool) {}

// vFmtInt: the k-th (from 1) decimal integer in a formatted string
func vFmtInt(k int, s string) uint64 {
	n := 0
	i := 0
	for i < len(s) {
		if s[i] >= '0' && s[i] <= '9' {
			var v uint64
			for i < len(s) && s[i] >= '0' && s[i] <= '9' {
				v = v*10 + uint64(s[i]-'0')
				i++
			}
			n++
			if n == k {
				return v
			}
			continue
		}
		i++
	}
	panic(vSkip{"vFmtInt: no such integer"})
}
func vTokOperand(k int) uint64 { panic(vSkip{"vTokOperand has no native counterpart"}) }

// vSettle: let the other goroutines run until they wait (natively: give them time)
func vSettle() {
	for i := 0; i < 50; i++ {
		runtime.Gosched()
		time.Sleep(200 * time.Microsecond)
	}
}
func vParkedCount() int { panic(vSkip{"vParkedCount has no native counterpart"}) }

// token bookkeeping of the symbolic build; natively the rendered string itself is parsed
func vTokMark() int { return 0 }
func vStrToks(s string) ([]string, bool) {
	if len(s) < 2 || s[0] != '[' || s[len(s)-1] != ']' {
		return nil, false
	}
	body := s[1 : len(s)-1]
	var toks []string
	for len(body) > 0 {
		j := 0
		for j < len(body) && !(j+1 < len(body) && body[j] == ',' && body[j+1] == ' ') {
			j++
		}
		toks = append(toks, body[:j])
		if j >= len(body) {
			break
		}
		body = body[j+2:]
	}
	return toks, true
}

// vStrTokCount: number of tokens in "[t0, t1, ...]"
func vStrTokCount(s string, mark int) int {
	toks, ok := vStrToks(s)
	if !ok {
		return -1
	}
	return len(toks)
}

// vStrTokIs: s is "[t0, t1, ...]"; token i renders val as kind 1 signed / 2 unsigned decimal,
// 3 float32 / 6 float64 (val = Float64bits of the float64 handed to strconv), 4 bool
func vStrTokIs(s string, mark, i, kind int, val uint64) bool {
	toks, ok := vStrToks(s)
	if !ok {
		return false
	}
	if i >= len(toks) {
		return false
	}
	t := toks[i]
	switch kind {
	case 1:
		return t == fmt.Sprintf("%d", int64(val))
	case 2:
		return t == fmt.Sprintf("%d", val)
	case 4:
		return t == fmt.Sprintf("%v", val != 0)
	case 3:
		return t == strconv.FormatFloat(math.Float64frombits(val), 'g', -1, 32)
	case 6:
		return t == strconv.FormatFloat(math.Float64frombits(val), 'g', -1, 64)
	}
	panic(vSkip{"vStrTokIs: unknown kind"})
}

package schemas

// symbolic build: zlib is the identity (see the stub of compress/zlib.NewReader)
func vZlibWrap(b []byte) []byte { return b }

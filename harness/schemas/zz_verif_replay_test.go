package schemas

import (
	"fmt"
	"os"
	"strings"
	"testing"
)

// TestVerifReplay runs harnesses natively under recorded counterexamples (VERIF_REPLAY is a
// comma-separated list of files). It FAILS when at least one violation reproduces and prints one
// "VERIF-REPLAY <file>: <outcome>" line per file.
func TestVerifReplay(t *testing.T) {
	paths := os.Getenv("VERIF_REPLAY")
	if paths == "" {
		t.Skip("no VERIF_REPLAY")
	}
	any := false
	for _, path := range strings.Split(paths, ",") {
		outcome := vReplayOne(path)
		fmt.Printf("VERIF-REPLAY %s: %s\n", path, outcome)
		if strings.HasPrefix(outcome, "reproduced") {
			any = true
		}
	}
	if any {
		t.Fatalf("violation reproduced")
	}
}

func vReplayOne(path string) (outcome string) {
	if err := vLoad(path); err != nil {
		return "cannot load replay: " + err.Error()
	}
	fn := vHarnesses[vState.cex.Harness]
	if fn == nil {
		return "unknown harness " + vState.cex.Harness
	}
	defer func() {
		if r := recover(); r != nil {
			switch x := r.(type) {
			case vSkip:
				outcome = "diverged: " + x.why
			case vFail:
				outcome = "reproduced assert " + x.id
			default:
				outcome = fmt.Sprintf("reproduced panic %v", r)
			}
		}
	}()
	fn()
	return "not reproduced (harness completed)"
}

package schemas

import "sync"

// Harness intrinsics. In the symbolic build these have no bodies (the engine intercepts them);
// the native replay build swaps this file for zz_verif_rt_native.go.

func vNondetU8() uint8
func vNondetU16() uint16
func vNondetU32() uint32
func vNondetU64() uint64
func vNondetInt() int
func vNondetBool() bool
func vNondetBytes(n int) []byte
func vNondetBytesCap(n, c int) []byte
func vAssume(c bool)
func vAssert(c bool, id string)
func vReach(id string)
func vTag(name string, v uint64)
func vRegion(name string, c bool)
func vEvent(name string)
func vEventCount(name string) int
func vPanics(f func()) bool
func vAllocSum() uint64
func vAllocMax() uint64
func vSameArray(a, b []byte) bool
func vSliceOff(a []byte) int
func vLocksHeld() int
func vWithin(inner, outer []byte) bool
func vMutexFree(mu *sync.Mutex) bool
func vFmtArg(k int) uint64
func vPar(f, g func())
func vNoBlock(on bool)
func vFmtInt(k int, s string) uint64
func vTokOperand(k int) uint64
func vTokMark() int
func vSettle()
func vParkedCount() int
func vStrTokCount(s string, mark int) int
func vStrTokIs(s string, mark, i, kind int, val uint64) bool

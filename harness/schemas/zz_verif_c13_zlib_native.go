package schemas

import (
	"bytes"
	"compress/zlib"
)

// native replay: the real zlib container around the packed stream
func vZlibWrap(b []byte) []byte {
	var buf bytes.Buffer
	w := zlib.NewWriter(&buf)
	w.Write(b)
	w.Close()
	return buf.Bytes()
}

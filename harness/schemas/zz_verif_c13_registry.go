package schemas

// C13, the registry's use of the streaming packed reader (schemas.go record.read): a compressed
// schema whose packed stream is complete is returned as the one-shot decoder returns it; a stream
// cut anywhere is reported as an error by Registry.Find, never as (shorter) data. zlib itself is
// replaced by the identity (stub compress/zlib.NewReader -> vZlibIdentity): inflate is outside reach.

import (
	"io"
	"io/ioutil"

	"capnproto.org/go/capnp/v3/internal/packed"
)

func vZlibIdentity(r io.Reader) (io.ReadCloser, error) { return ioutil.NopCloser(r), nil }

func vWordsPattern(n int) []byte {
	x := vNondetBytes(8 * n)
	for w := 0; w < n; w++ {
		var mask byte
		switch vNondetU8() % 4 {
		case 0:
			mask = 0x00
		case 1:
			mask = 0xff
		case 2:
			mask = 0x7f
		default:
			mask = 0x11
		}
		for b := 0; b < 8; b++ {
			if mask&(1<<uint(b)) != 0 {
				vAssume(x[8*w+b] != 0)
			} else {
				vAssume(x[8*w+b] == 0)
				x[8*w+b] = 0
			}
		}
	}
	return x
}

func vRegistryStream(n int) {
	x := vWordsPattern(n)
	p := packed.Pack(nil, x)
	c := vNondetInt()
	vAssume(c >= 0 && c <= len(p))
	for k := 0; k <= len(p); k++ { // one path per cut position
		if c == k {
			c = k
			break
		}
	}
	reg := new(Registry)
	vAssume(reg.Register(&Schema{Bytes: vZlibWrap(p[:c:c]), Compressed: true, Nodes: []uint64{1}}) == nil)
	vReach("registered")
	b, err := reg.Find(1)
	vReach("found")
	want, uerr := packed.Unpack(nil, p[:c])
	vAssert((err != nil) == (uerr != nil), "C13.registry.streaming-and-one-shot-agree-on-acceptability")
	if c == len(p) {
		vAssert(err == nil && uerr == nil, "C13.registry.complete-stream-accepted")
	}
	if err == nil && uerr == nil {
		vAssert(len(b) == len(want), "C13.registry.length")
		if len(b) == len(want) && len(b) > 0 {
			j := vNondetInt()
			vAssume(j >= 0 && j < len(b))
			vAssert(b[j] == want[j], "C13.registry.bytes")
		}
	}
	if err != nil {
		vAssert(b == nil, "C13.registry.no-data-with-an-error")
	}
	// asking again gives the same answer
	b2, err2 := reg.Find(1)
	vAssert((err2 != nil) == (err != nil) && len(b2) == len(b), "C13.registry.same-answer-again")
}

func VH_C13_registry_1() { vRegistryStream(1) }
func VH_C13_registry_2() { vRegistryStream(2) }

package rpc

// C06 / C07 / C08: the whole life of one incoming call that stays in flight - Call, then Finish and
// the application's return in either order, the return being an error, plain results or results
// carrying a new capability, the Finish asking for the result capabilities to be released or not.
// Exactly one Return goes out whatever the order, the answer entry disappears when both have
// happened, no lock stays held, and the capability placed in the results is released exactly when
// the peer said so.

import (
	"context"

	"capnproto.org/go/capnp/v3"
	rpccp "capnproto.org/go/capnp/v3/std/capnp/rpc"
)

// vHoldHook keeps the call in flight: Recv records it and returns without completing it
type vHoldHook struct {
	got bool
	ctx context.Context
	r   capnp.Recv
}

func (h *vHoldHook) Send(ctx context.Context, s capnp.Send) (*capnp.Answer, capnp.ReleaseFunc) {
	return capnp.ErrorAnswer(s.Method, vFault{}), func() {}
}

func (h *vHoldHook) Recv(ctx context.Context, r capnp.Recv) capnp.PipelineCaller {
	h.got, h.ctx, h.r = true, ctx, r
	vAssert(vLocksHeld() == 0, "C08.application-called-without-conn-mutex")
	return nil
}
func (h *vHoldHook) Brand() capnp.Brand { return capnp.Brand{} }
func (h *vHoldHook) Shutdown()          {}

func VH_C06_call_lifecycle() {
	t := &vTransport{}
	c := vNewConn(t, nil)
	hold := &vHoldHook{}
	// export 0, entered the way sendCap enters it (the id comes from the connection's id generator)
	vAssume(c.exportID.next() == 0)
	c.exports = []*expent{{client: capnp.NewClient(hold), wireRefs: 1}}
	m := vRecvMsg()
	call, err := m.NewCall()
	vAssume(err == nil)
	qid := vNondetU32()
	call.SetQuestionId(qid)
	call.SetInterfaceId(vNondetU64())
	call.SetMethodId(vNondetU16())
	tgt, err := call.NewTarget()
	vAssume(err == nil)
	tgt.SetImportedCap(0)
	pl, err := call.NewParams()
	vAssume(err == nil)
	args, err := capnp.NewStruct(pl.Segment(), capnp.ObjectSize{DataSize: 8})
	vAssume(err == nil && pl.SetContent(args.ToPtr()) == nil)
	releasedCall := 0
	herr := c.handleCall(c.bgctx, call, func() { releasedCall++ })
	vAssert(herr == nil && hold.got, "C06.life.call-delivered")
	if herr != nil || !hold.got {
		return
	}
	vQuiescent(c, "C06.life.call")
	vAssert(c.answers[answerID(qid)] != nil, "C06.life.answer-entry-while-in-flight")

	finishFirst := vNondetBool()
	relCaps := vNondetBool()
	mode := vConcI(int(vNondetU8()), 3) // 0 error, 1 plain results, 2 results with a new capability
	res := &vRecvHook{}
	finish := func() {
		ferr := c.handleFinish(c.bgctx, answerID(qid), relCaps)
		vAssert(ferr == nil, "C06.life.finish-accepted")
		vQuiescent(c, "C06.life.finish")
	}
	if finishFirst {
		finish()
		vAssert(vIsDone(hold.ctx), "C06.life.finish-cancels-the-running-call")
		if vNondetBool() {
			// a second Finish for the same answer is a protocol error - reported, nothing left locked
			ferr2 := c.handleFinish(c.bgctx, answerID(qid), relCaps)
			vAssert(ferr2 != nil, "C08.life.second-finish-is-a-protocol-error")
			vQuiescent(c, "C08.life.second-finish")
		}
		vAssert(c.answers[answerID(qid)] != nil, "C06.life.answer-entry-kept-until-return")
	}
	// the application returns
	var rerr error
	switch mode {
	case 0:
		rerr = vFault{}
	case 1:
		_, err := hold.r.Returner.AllocResults(capnp.ObjectSize{DataSize: 8})
		vAssume(err == nil)
	default:
		s, err := hold.r.Returner.AllocResults(capnp.ObjectSize{PointerCount: 1})
		vAssume(err == nil)
		id := s.Message().AddCap(capnp.NewClient(res))
		vAssume(s.SetPtr(0, capnp.NewInterface(s.Segment(), id).ToPtr()) == nil)
	}
	hold.r.ReleaseArgs()
	hold.r.Returner.Return(rerr)
	vReach("returned")
	vQuiescent(c, "C06.life.return")
	if !finishFirst {
		vAssert(c.answers[answerID(qid)] != nil, "C06.life.answer-entry-kept-until-finish")
		if mode == 2 {
			vAssert(res.shutdowns == 0, "C07.life.result-capability-alive-until-finish")
		}
		finish()
	}
	vReach("done")
	// exactly one Return, for this answer, of the right kind
	nret := 0
	for i, w := range t.lastWhich {
		if w == rpccp.Message_Which_return {
			nret++
			vAssert(t.returnIDs[i] == qid, "C06.life.return-carries-own-answer-id")
			// this implementation gives parameter capabilities back with Release messages of its own, so
			// its Returns must not ALSO tell the peer to release them (each reference is given back once)
			vAssert(!t.returnRelParams[i], "C07.life.return-does-not-release-parameter-capabilities-a-second-time")
		}
	}
	vAssert(nret == 1, "C06.life.exactly-one-return")
	vAssert(c.answers[answerID(qid)] == nil, "C06.life.answer-entry-removed")
	vAssert(releasedCall == 1, "C06.life.call-message-released-once")
	vAssert(t.releases == t.newMsgs, "C06.life.every-outgoing-message-released")
	if mode == 2 {
		// the new capability was exported as export 1
		if relCaps {
			vAssert(len(c.exports) < 2 || c.exports[1] == nil, "C07.life.released-result-capability-leaves-the-table")
			vAssert(res.shutdowns == 1, "C07.life.released-result-capability-shut-down-once")
		} else {
			vAssert(len(c.exports) == 2 && c.exports[1] != nil && c.exports[1].wireRefs == 1, "C07.life.kept-result-capability-has-one-wire-reference")
			vAssert(res.shutdowns == 0, "C07.life.kept-result-capability-stays-alive")
		}
	}
}

// The set of pipelined paths of a question (they decide which result capabilities get an embargo and
// a Disembargo when the Return resolves them to local capabilities): mark() keeps exactly the
// distinct transforms, compared field by field.
func VH_C06_mark_paths() {
	c := vNewConn(&vTransport{}, nil)
	q := &question{c: c}
	a, b, x, y := vNondetU16(), vNondetU16(), vNondetU16(), vNondetU16()
	two := vNondetBool()
	t1 := []capnp.PipelineOp{{Field: a}}
	t2 := []capnp.PipelineOp{{Field: b}}
	if two {
		t1 = append(t1, capnp.PipelineOp{Field: x})
		t2 = append(t2, capnp.PipelineOp{Field: y})
	}
	q.mark(t1)
	vAssert(len(q.called) == 1, "C06.mark.first-path-recorded")
	q.mark(t2)
	vReach("marked")
	same := a == b && (!two || x == y)
	if same {
		vAssert(len(q.called) == 1, "C06.mark.same-path-recorded-once")
	} else {
		vAssert(len(q.called) == 2, "C06.mark.distinct-paths-all-recorded")
		if len(q.called) == 2 {
			vAssert(q.called[1][0].Field == b, "C06.mark.recorded-path-is-the-one-used")
		}
	}
	// a path of another length is always distinct
	q.mark([]capnp.PipelineOp{{Field: a}, {Field: x}, {Field: y}})
	vAssert(len(q.called) == 2 || len(q.called) == 3, "C06.mark.longer-path")
	if same {
		vAssert(len(q.called) == 2, "C06.mark.longer-path-is-distinct")
	}
}

// Close while a call is still running: the call's context is cancelled, Close waits for it, and a
// capability the late return places in its results is released like every other export - after
// Close nothing the connection held stays alive.
func VH_C07_close_with_call_in_flight() {
	t := &vTransport{}
	c := vNewConn(t, nil)
	hold := &vHoldHook{}
	boot := &vRecvHook{}
	vAssume(c.exportID.next() == 0)
	c.exports = []*expent{{client: capnp.NewClient(hold), wireRefs: 1}}
	_ = boot
	m := vRecvMsg()
	call, err := m.NewCall()
	vAssume(err == nil)
	call.SetQuestionId(vNondetU32())
	tgt, err := call.NewTarget()
	vAssume(err == nil)
	tgt.SetImportedCap(0)
	pl, err := call.NewParams()
	vAssume(err == nil)
	args, err := capnp.NewStruct(pl.Segment(), capnp.ObjectSize{DataSize: 8})
	vAssume(err == nil && pl.SetContent(args.ToPtr()) == nil)
	herr := c.handleCall(c.bgctx, call, func() {})
	vAssume(herr == nil && hold.got)
	res := &vRecvHook{}
	withCap := vNondetBool()
	returned := false
	// the application: returns when it notices the cancellation
	go func() {
		<-hold.ctx.Done()
		if withCap {
			s, err := hold.r.Returner.AllocResults(capnp.ObjectSize{PointerCount: 1})
			if err == nil {
				id := s.Message().AddCap(capnp.NewClient(res))
				_ = s.SetPtr(0, capnp.NewInterface(s.Segment(), id).ToPtr())
			}
		}
		hold.r.ReleaseArgs()
		if withCap {
			hold.r.Returner.Return(nil)
		} else {
			hold.r.Returner.Return(vFault{})
		}
		returned = true
	}()
	cerr := c.Close()
	vReach("closed")
	vAssert(cerr == nil, "C07.close.ok")
	vAssert(returned, "C07.close.waits-for-the-running-call")
	vQuiescent(c, "C07.close")
	for i := range c.exports {
		vAssert(c.exports[i] == nil, "C07.close.export-table-emptied")
	}
	if withCap {
		vAssert(res.shutdowns == 1, "C07.close.late-result-capability-released-exactly-once")
	}
	vAssert(t.closes == 1, "C07.close.transport-closed-once")
}

// The last local reference to an import is released while - in the window in which the Release
// message is being written and Conn.mu is free - the receive loop imports the SAME id again (a
// Return carrying senderHosted(id)). The new reference is a live import with its own table entry
// and its own wire reference; releasing it later sends a second Release; nothing panics or hangs.
func VH_C07_import_release_window() {
	t := &vTransport{}
	c := vNewConn(t, nil)
	id := importID(vNondetU32())
	c.mu.Lock()
	cl := c.addImport(id)
	c.mu.Unlock()
	var cl2 *capnp.Client
	t.onSend = func(w rpccp.Message_Which) {
		if w == rpccp.Message_Which_release && cl2 == nil {
			c.mu.Lock()
			cl2 = c.addImport(id)
			c.mu.Unlock()
		}
	}
	cl.Release()
	vReach("first-released")
	vQuiescent(c, "C07.window.first")
	vAssert(cl2 != nil, "C07.window.release-message-was-sent")
	if cl2 == nil {
		return
	}
	ent := c.imports[id]
	vAssert(ent != nil && ent.wireRefs == 1, "C07.window.reimported-entry-survives-the-old-release")
	vAssert(len(t.releaseIDs) == 1 && t.releaseIDs[0] == uint32(id) && t.releaseCounts[0] == 1, "C07.window.first-release-counts-one")
	t.onSend = nil
	cl2.Release()
	vReach("second-released")
	vQuiescent(c, "C07.window.second")
	vAssert(c.imports[id] == nil, "C07.window.entry-removed-after-last-release")
	vAssert(len(t.releaseIDs) == 2 && t.releaseIDs[1] == uint32(id) && t.releaseCounts[1] == 1, "C07.window.second-release-sent")
}

// The bootstrap capability: every Bootstrap answer holds its OWN reference; when the peer has
// finished the answer and released the export, the connection still has its bootstrap capability
// (alive, and a second Bootstrap succeeds); Close releases it exactly once.
func VH_C07_bootstrap_answer_refs() {
	t := &vTransport{}
	boot := &vRecvHook{}
	c := vNewConn(t, capnp.NewClient(boot))
	vAssert(c.handleBootstrap(c.bgctx, 7) == nil, "C07.boot.first-bootstrap-answered")
	vQuiescent(c, "C07.boot.first")
	relCaps := vNondetBool()
	vAssert(c.handleFinish(c.bgctx, 7, relCaps) == nil, "C07.boot.finish-accepted")
	if !relCaps {
		// the peer keeps the capability for a while, then releases its one reference
		vAssert(len(c.exports) == 1 && c.exports[0] != nil && c.exports[0].wireRefs == 1, "C07.boot.export-has-one-wire-reference")
		vAssert(c.handleRelease(c.bgctx, 0, 1) == nil, "C07.boot.release-accepted")
	}
	vReach("peer-holds-nothing")
	vQuiescent(c, "C07.boot.released")
	vAssert(len(c.exports) == 0 || c.exports[0] == nil, "C07.boot.export-gone")
	vAssert(boot.shutdowns == 0, "C07.boot.connection-keeps-its-own-reference")
	n := len(t.lastWhich)
	vAssert(c.handleBootstrap(c.bgctx, 8) == nil, "C07.boot.second-bootstrap-answered")
	vAssert(len(t.lastWhich) == n+1 && t.lastWhich[n] == rpccp.Message_Which_return, "C07.boot.second-return-sent")
	vAssert(len(c.exports) >= 1 && c.exports[0] != nil, "C07.boot.second-bootstrap-exports-the-capability-again")
	cerr := c.Close()
	vAssert(cerr == nil, "C07.boot.close-ok")
	vAssert(boot.shutdowns == 1, "C07.boot.released-exactly-once-at-close")
}

// Close while a shutdown started by the receive loop is still in progress (it waits for a running
// call): Close waits for it without holding anything the shutdown or the returning call needs; when
// the call returns both complete.
func VH_C09_close_during_shutdown() {
	t := &vTransport{}
	c := vNewConn(t, nil)
	hold := &vHoldHook{}
	vAssume(c.exportID.next() == 0)
	c.exports = []*expent{{client: capnp.NewClient(hold), wireRefs: 1}}
	m := vRecvMsg()
	call, err := m.NewCall()
	vAssume(err == nil)
	call.SetQuestionId(1)
	tgt, err := call.NewTarget()
	vAssume(err == nil)
	tgt.SetImportedCap(0)
	pl, err := call.NewParams()
	vAssume(err == nil)
	args, err := capnp.NewStruct(pl.Segment(), capnp.ObjectSize{DataSize: 8})
	vAssume(err == nil && pl.SetContent(args.ToPtr()) == nil)
	vAssume(c.handleCall(c.bgctx, call, func() {}) == nil && hold.got)
	done1, done2 := false, false
	var err2 error
	// the receive loop hit an error and shuts the connection down (as Conn.receive does)
	go func() {
		c.mu.Lock()
		_ = c.shutdown(fail("receive error"))
		done1 = true
	}()
	vSettle() // the shutdown has cancelled the call and waits for it
	vAssert(!done1 && vIsDone(hold.ctx), "C09.close2.shutdown-waits-for-the-running-call")
	go func() { err2 = c.Close(); done2 = true }()
	vSettle() // Close finds the shutdown in progress and waits for it
	vAssert(!done2, "C09.close2.close-waits-for-the-shutdown-in-progress")
	// the application notices the cancellation and returns
	hold.r.ReleaseArgs()
	hold.r.Returner.Return(vFault{})
	vSettle()
	vReach("returned")
	vAssert(done1 && done2, "C09.close2.shutdown-and-close-complete")
	vAssert(err2 == nil, "C09.close2.close-reports-success")
	vQuiescent(c, "C09.close2")
	vAssert(t.closes == 1, "C09.close2.transport-closed-once")
}

// The transport cannot create the Return message for an incoming Bootstrap or Call (NewMessage
// fails): the answer table keeps a placeholder for that id. Closing the connection afterwards - or a
// Finish for that answer - must work like for any other answer: no panic, nothing left locked.
func VH_C09_close_after_unsendable_return() {
	t := &vTransport{faultNewMessage: true}
	boot := &vRecvHook{}
	c := vNewConn(t, capnp.NewClient(boot))
	viaCall := vNondetBool()
	if viaCall {
		hook := &vRecvHook{sync: true}
		vAssume(c.exportID.next() == 0)
		c.exports = []*expent{{client: capnp.NewClient(hook), wireRefs: 1}}
		m := vRecvMsg()
		call, err := m.NewCall()
		vAssume(err == nil)
		call.SetQuestionId(7)
		tgt, err := call.NewTarget()
		vAssume(err == nil)
		tgt.SetImportedCap(0)
		pl, err := call.NewParams()
		vAssume(err == nil)
		args, err := capnp.NewStruct(pl.Segment(), capnp.ObjectSize{DataSize: 8})
		vAssume(err == nil && pl.SetContent(args.ToPtr()) == nil)
		vAssert(c.handleCall(c.bgctx, call, func() {}) == nil, "C09.unsendable.call-handled")
	} else {
		vAssert(c.handleBootstrap(c.bgctx, 7) == nil, "C09.unsendable.bootstrap-handled")
	}
	vQuiescent(c, "C09.unsendable.handled")
	vRegion("return_message_not_created", t.sends == 0 && c.answers[7] != nil)
	if vNondetBool() {
		ferr := c.handleFinish(c.bgctx, 7, vNondetBool())
		_ = ferr
		vQuiescent(c, "C09.unsendable.finish")
	}
	t.faultNewMessage = false
	cerr := c.Close()
	vReach("closed")
	vAssert(cerr == nil, "C09.unsendable.close-ok")
	vQuiescent(c, "C09.unsendable.close")
	vAssert(t.closes == 1, "C09.unsendable.transport-closed-once")
}

// A capability received in the parameters of a call - whether or not the payload has any content -
// is imported, and when the call is over and nothing holds it any more exactly one Release with
// count 1 goes back for it and the import entry is gone.
func VH_C07_param_caps_released() {
	t := &vTransport{}
	c := vNewConn(t, nil)
	hook := &vRecvHook{sync: true}
	vAssume(c.exportID.next() == 0)
	c.exports = []*expent{{client: capnp.NewClient(hook), wireRefs: 1}}
	m := vRecvMsg()
	call, err := m.NewCall()
	vAssume(err == nil)
	call.SetQuestionId(9)
	tgt, err := call.NewTarget()
	vAssume(err == nil)
	tgt.SetImportedCap(0)
	pl, err := call.NewParams()
	vAssume(err == nil)
	withContent := vNondetBool()
	if withContent {
		args, err := capnp.NewStruct(pl.Segment(), capnp.ObjectSize{DataSize: 8})
		vAssume(err == nil && pl.SetContent(args.ToPtr()) == nil)
	}
	id := vNondetU32()
	ct, err := pl.NewCapTable(1)
	vAssume(err == nil)
	ct.At(0).SetSenderHosted(id)
	herr := c.handleCall(c.bgctx, call, func() {})
	vSettle()
	vReach("handled")
	vAssert(herr == nil, "C07.params.call-handled")
	vQuiescent(c, "C07.params")
	n := 0
	for i, rid := range t.releaseIDs {
		if rid == id {
			n++
			vAssert(t.releaseCounts[i] == 1, "C07.params.release-count-is-what-was-received")
		}
	}
	vAssert(n == 1, "C07.params.received-capability-released-exactly-once")
	vAssert(c.imports[importID(id)] == nil, "C07.params.import-entry-gone")
}

// A senderLoopback Disembargo that names a result capability which is local (not an import) or an
// import of this connection: the former is a protocol error, the latter is looped back; in both cases
// the temporary reference the handler takes is given back - after Close the capability has been shut
// down exactly once.
func VH_C07_disembargo_loopback_refs() {
	t := &vTransport{}
	boot := &vRecvHook{}
	c := vNewConn(t, capnp.NewClient(boot))
	vAssume(c.handleBootstrap(c.bgctx, 7) == nil) // answer 7: returned, result capability is local
	m := vRecvMsg()
	d, err := m.NewDisembargo()
	vAssume(err == nil)
	d.Context().SetSenderLoopback(vNondetU32())
	dt, err := d.NewTarget()
	vAssume(err == nil)
	pa, err := dt.NewPromisedAnswer()
	vAssume(err == nil)
	pa.SetQuestionId(7)
	herr := c.handleDisembargo(c.bgctx, d)
	vReach("handled")
	vAssert(herr != nil, "C08.loopback.local-capability-is-a-protocol-error")
	vQuiescent(c, "C08.loopback")
	vAssert(boot.shutdowns == 0, "C07.loopback.capability-alive-while-the-connection-is-open")
	cerr := c.Close()
	vAssert(cerr == nil, "C07.loopback.close-ok")
	vAssert(boot.shutdowns == 1, "C07.loopback.temporary-reference-given-back")
}

package rpc

// C06 (id allocation) and C07 (reference counting) kernels.

import (
	"context"

	"capnproto.org/go/capnp/v3"
	rpccp "capnproto.org/go/capnp/v3/std/capnp/rpc"
)

// idgen: inductive steps from an arbitrary generator state (ids below 64; i <= 64) with the ghost
// view "an id below i that is not in the free set is in use". Representation invariant: only ids
// below i are ever in the free set.
func vIdgen() (idgen, uint64) {
	var g idgen
	g.i = vNondetU32()
	vAssume(g.i <= 64)
	w0 := vNondetU64()
	if g.i < 64 {
		vAssume(w0>>g.i == 0)
	}
	g.free = uintSet{w0}
	return g, w0
}

// next() never hands out an id that is in use, marks its result in use, touches nothing else
func VH_C06_idgen_next() {
	g, w0 := vIdgen()
	i0 := g.i
	id := g.next()
	vReach("next")
	if uint64(id) < uint64(i0) {
		vAssert(w0&(1<<id) != 0, "C06.idgen.next-was-free-not-in-use")
		vAssert(g.free[0] == w0&^(1<<id) && g.i == i0, "C06.idgen.next-marks-only-its-id")
		vAssert(w0&((1<<id)-1) == 0, "C06.idgen.next-is-the-smallest-free-id")
	} else {
		vAssert(id == i0 && w0 == 0, "C06.idgen.fresh-id-only-when-none-is-free")
		vAssert(g.i == i0+1 && g.free[0] == 0, "C06.idgen.fresh-id-extends-the-range")
	}
}

// remove(x) frees exactly x
func VH_C06_idgen_remove() {
	g, w0 := vIdgen()
	x := vNondetU32()
	vAssume(x < g.i && w0&(1<<x) == 0) // x is in use
	g.remove(x)
	vReach("removed")
	vAssert(g.free[0] == w0|1<<x, "C06.idgen.remove-frees-exactly-its-id")
}

// a question id is reused only after its Finish has been sent: cancel (Finish may fail to be sent),
// then the peer's Return arrives
func VH_C06_qid_not_reused_before_finish() {
	t := &vTransport{}
	c := vNewConn(t, nil)
	c.mu.Lock()
	q := c.newQuestion(capnp.Method{})
	c.mu.Unlock()
	ctx, cancel := context.WithCancel(context.Background())
	cancel()
	t.faultNewMessage, t.faultSend = true, true
	q.handleCancel(ctx)
	vReach("cancelled")
	vQuiescent(c, "C06.qid.cancel")
	finishDelivered := false
	for _, w := range t.delivered {
		if w == rpccp.Message_Which_finish {
			finishDelivered = true
		}
	}
	vAssert(!c.questionID.free.has(uint(q.id)), "C06.qid.not-freed-while-the-peer-may-still-return")
	m := vRecvMsg()
	ret, err := m.NewReturn()
	vAssume(err == nil)
	ret.SetAnswerId(uint32(q.id))
	herr := c.handleReturn(c.bgctx, ret, func() {})
	vReach("returned")
	vAssert(herr == nil, "C06.qid.return-accepted")
	vQuiescent(c, "C06.qid.return")
	vAssert(c.questionID.free.has(uint(q.id)) == finishDelivered, "C06.qid.freed-iff-finish-was-sent")
}

// releaseExport: wire reference arithmetic, full width
func VH_C07_release_export() {
	t := &vTransport{}
	c := vNewConn(t, nil)
	hook := &vRecvHook{}
	W := vNondetU32()
	vAssume(W >= 1)
	c.exports = []*expent{{client: capnp.NewClient(hook), wireRefs: W}, nil}
	c.exportID.i = 2
	id := exportID(vNondetU32())
	K := vNondetU32()
	c.mu.Lock()
	client, err := c.releaseExport(id, K)
	c.mu.Unlock()
	vReach("returned")
	switch {
	case id != 0:
		vAssert(err != nil && client == nil, "C07.release-export.unknown-id-is-an-error")
		vAssert(c.exports[0] != nil && c.exports[0].wireRefs == W, "C07.release-export.unknown-id-changes-nothing")
	case K > W:
		vAssert(err != nil && client == nil && c.exports[0] != nil && c.exports[0].wireRefs == W, "C07.release-export.too-many-is-an-error-and-changes-nothing")
	case K == W:
		vAssert(err == nil && client != nil && c.exports[0] == nil, "C07.release-export.last-reference-drops-the-export")
		vAssert(c.exportID.free.has(0), "C07.release-export.id-freed")
	default:
		vAssert(err == nil && client == nil && c.exports[0] != nil && c.exports[0].wireRefs == W-K, "C07.release-export.count-decremented-exactly")
	}
	vAssert(hook.shutdowns == 0, "C07.release-export.capability-not-released-by-the-table-operation")
}

// sendCap / fillPayloadCapTable: one wire reference per descriptor written, and the per-answer
// bookkeeping (refs) equals the number of descriptors naming each export
func VH_C07_send_caps() {
	t := &vTransport{}
	c := vNewConn(t, nil)
	hookA, hookB := &vRecvHook{}, &vRecvHook{}
	a, b := capnp.NewClient(hookA), capnp.NewClient(hookB)
	// A is already exported once with W references
	W := vNondetU32()
	vAssume(W >= 1 && W < 1<<31)
	c.exports = []*expent{{client: a.AddRef(), wireRefs: W}}
	c.exportID.i = 1
	// the payload carries 1..3 capabilities, each A, B or nil
	n := 1 + vConcI(int(vNondetU8()), 3)
	clients := make([]*capnp.Client, n)
	states := make([]capnp.ClientState, n)
	na, nb := 0, 0
	for i := 0; i < n; i++ {
		switch vConcI(int(vNondetU8()), 3) {
		case 0:
			clients[i] = a
			na++
		case 1:
			clients[i] = b
			nb++
		}
		states[i] = clients[i].State()
	}
	m := vRecvMsg()
	ret, err := m.NewReturn()
	vAssume(err == nil)
	pl, err := ret.NewResults()
	vAssume(err == nil)
	c.mu.Lock()
	refs, err := c.fillPayloadCapTable(pl, clients, states)
	c.mu.Unlock()
	vReach("returned")
	vAssert(err == nil, "C07.sendcaps.no-error")
	vAssert(c.exports[0].wireRefs == W+uint32(na), "C07.sendcaps.existing-export-counts-each-descriptor")
	vAssert(refs[0] == uint32(na), "C07.sendcaps.answer-remembers-each-descriptor")
	if nb > 0 {
		vAssert(len(c.exports) == 2 && c.exports[1] != nil && c.exports[1].wireRefs == uint32(nb), "C07.sendcaps.new-export-counts-each-descriptor")
		vAssert(refs[1] == uint32(nb), "C07.sendcaps.answer-remembers-new-export")
	} else {
		vAssert(len(c.exports) == 1, "C07.sendcaps.no-spurious-export")
	}
	// the descriptors written name the exports
	ct, err := pl.CapTable()
	vAssume(err == nil)
	for i := 0; i < n; i++ {
		d := ct.At(i)
		switch {
		case clients[i] == nil:
			vAssert(d.Which() == 0, "C07.sendcaps.nil-is-none")
		case clients[i] == a:
			vAssert(d.Which() == 1 && d.SenderHosted() == 0, "C07.sendcaps.descriptor-names-export")
		default:
			vAssert(d.Which() == 1 && d.SenderHosted() == 1, "C07.sendcaps.descriptor-names-new-export")
		}
	}
	// releasing what the answer remembers brings the counts back
	c.mu.Lock()
	rl, err := c.releaseExports(refs)
	c.mu.Unlock()
	vAssert(err == nil, "C07.sendcaps.release-remembered-ok")
	vAssert(c.exports[0] != nil && c.exports[0].wireRefs == W, "C07.sendcaps.release-restores-existing-export")
	if nb > 0 {
		vAssert(c.exports[1] == nil && len(rl) == 1, "C07.sendcaps.release-drops-new-export-and-returns-its-client-once")
	} else {
		vAssert(len(rl) == 0, "C07.sendcaps.nothing-to-release")
	}
}

// addImport: wire references received are counted exactly and reported in one Release
func VH_C07_import_release() {
	t := &vTransport{}
	c := vNewConn(t, nil)
	id := importID(vNondetU32())
	n := 1 + vConcI(int(vNondetU8()), 3)
	var clients []*capnp.Client
	c.mu.Lock()
	for i := 0; i < n; i++ {
		clients = append(clients, c.addImport(id))
	}
	c.mu.Unlock()
	vReach("imported")
	vAssert(c.imports[id] != nil && c.imports[id].wireRefs == n, "C07.import.wire-references-counted")
	for i, cl := range clients {
		vAssert(t.sends == 0, "C07.import.no-release-while-a-local-reference-remains")
		cl.Release()
		_ = i
	}
	vQuiescent(c, "C07.import.release")
	vAssert(t.sends == 1 && t.releaseCounts[0] == uint32(n) && t.releaseIDs[0] == uint32(id), "C07.import.one-release-with-the-exact-count")
	vAssert(c.imports[id] == nil, "C07.import.entry-dropped")
}

// the generation race: the last local reference to an import is gone (its weak reference is dead)
// but the table entry is still there when another descriptor for the same id arrives. The new
// client must report every reference received so far.
func VH_C07_import_generation() {
	t := &vTransport{}
	c := vNewConn(t, nil)
	id := importID(vNondetU32())
	n := 1 + vConcI(int(vNondetU8()), 3)
	c.mu.Lock()
	for i := 0; i < n; i++ {
		c.addImport(id)
	}
	// emulate "weak reference dead, entry present": a weak reference to a released client
	dead := capnp.NewClient(&vRecvHook{})
	w := dead.WeakRef()
	dead.Release()
	c.imports[id].wc = w
	fresh := c.addImport(id)
	c.mu.Unlock()
	vReach("imported")
	vAssert(c.imports[id] != nil && c.imports[id].wireRefs == n+1, "C07.generation.all-received-references-counted")
	fresh.Release()
	vQuiescent(c, "C07.generation.release")
	vAssert(t.sends == 1 && len(t.releaseCounts) == 1 && t.releaseCounts[0] == uint32(n+1), "C07.generation.release-reports-every-received-reference")
}

// embargo: when a Return resolves pipelined-on paths to capabilities hosted by this vat, each such
// capability gets a Disembargo (sender loopback) so that calls made before and after the
// resolution stay ordered - for every called path, whatever the earlier paths resolved to.
func VH_C06_embargo_per_called_path() {
	t := &vTransport{}
	c := vNewConn(t, nil)
	hook := &vRecvHook{}
	c.exports = []*expent{{client: capnp.NewClient(hook), wireRefs: 1}}
	c.exportID.i = 1
	c.mu.Lock()
	q := c.newQuestion(capnp.Method{})
	c.mu.Unlock()
	q.called = [][]capnp.PipelineOp{{{Field: 0}}, {{Field: 1}}}
	m := vRecvMsg()
	ret, err := m.NewReturn()
	vAssume(err == nil)
	ret.SetAnswerId(uint32(q.id))
	pl, err := ret.NewResults()
	vAssume(err == nil)
	res, err := capnp.NewStruct(pl.Segment(), capnp.ObjectSize{PointerCount: 2})
	vAssume(err == nil && pl.SetContent(res.ToPtr()) == nil)
	// field 1 is the capability in descriptor 0: export 0 of this vat coming back (receiverHosted)
	vAssume(res.SetPtr(1, capnp.NewInterface(pl.Segment(), 0).ToPtr()) == nil)
	ct, err := pl.NewCapTable(1)
	vAssume(err == nil)
	ct.At(0).SetReceiverHosted(0)
	// field 0: null, a plain struct (not a capability), or the same capability
	first := vConcI(int(vNondetU8()), 3)
	switch first {
	case 1:
		s, err := capnp.NewStruct(pl.Segment(), capnp.ObjectSize{DataSize: 8})
		vAssume(err == nil && res.SetPtr(0, s.ToPtr()) == nil)
	case 2:
		vAssume(res.SetPtr(0, capnp.NewInterface(pl.Segment(), 0).ToPtr()) == nil)
	}
	herr := c.handleReturn(c.bgctx, ret, func() {})
	vReach("returned")
	vAssert(herr == nil, "C06.embargo.return-accepted")
	vQuiescent(c, "C06.embargo")
	nd := 0
	for _, w := range t.lastWhich {
		if w == rpccp.Message_Which_disembargo {
			nd++
		}
	}
	vAssert(nd == 1, "C06.embargo.one-disembargo-for-the-local-capability-whatever-earlier-paths-hold")
}

package rpc

// Common scaffolding of the RPC harnesses: a fault-injecting Transport, a Conn built like NewConn
// builds it but without starting the receive goroutine (each harness analyses one goroutine: either
// an application call or one step of the receive loop), and lock-state probes.

import (
	"context"
	"time"

	"capnproto.org/go/capnp/v3"
	rpccp "capnproto.org/go/capnp/v3/std/capnp/rpc"
)

type vFault struct{}

func (vFault) Error() string { return "injected transport fault" }

type vTransport struct {
	newMsgs, sends, releases, closes int
	faultNewMessage                  bool // NewMessage may fail (nondeterministically, per call)
	faultSend                        bool // send may fail
	lastWhich                        []rpccp.Message_Which
	returnIDs                        []uint32
	returnRelParams                  []bool // Return.releaseParamCaps of every message sent (false for others)
	releaseIDs, releaseCounts        []uint32
	delivered                        []rpccp.Message_Which // messages whose send succeeded
	conn                             *Conn
	onSend                           func(w rpccp.Message_Which) // runs inside send, where another goroutine could run
	callerCtxSeen, otherCtxSeen      int                         // NewMessage calls with / without the caller's context (see vCallerCtx)
}

type vCtxKey struct{}

// vMarked is a context that answers Value(vCtxKey{}) - and so does every context derived from it
type vMarked struct{ parent context.Context }

func (c *vMarked) Deadline() (time.Time, bool) { return c.parent.Deadline() }
func (c *vMarked) Done() <-chan struct{}       { return c.parent.Done() }
func (c *vMarked) Err() error                  { return c.parent.Err() }
func (c *vMarked) Value(k interface{}) interface{} {
	if _, ok := k.(vCtxKey); ok {
		return 1
	}
	return c.parent.Value(k)
}

// vCallerCtx marks a context as the caller's: the transport counts which NewMessage calls were made
// under it (a send made on behalf of a caller must be bounded by that caller's context)
func vCallerCtx() (context.Context, context.CancelFunc) {
	ctx, cancel := context.WithCancel(context.Background())
	return &vMarked{parent: ctx}, cancel
}

func (t *vTransport) NewMessage(ctx context.Context) (rpccp.Message, func() error, capnp.ReleaseFunc, error) {
	t.newMsgs++
	if ctx.Value(vCtxKey{}) != nil {
		t.callerCtxSeen++
	} else {
		t.otherCtxSeen++
	}
	if t.conn != nil {
		vAssert(vLocksHeld() == 0, "C09.transport.NewMessage-called-without-conn-mutex")
		// (the Abort message of shutdown is created after all tasks have drained, without the lock)
		if !vIsDone(t.conn.bgctx) {
			vAssert(t.conn.sendCond != nil, "C09.transport.NewMessage-called-with-sender-lock")
		}
	}
	if t.faultNewMessage && vNondetBool() {
		return rpccp.Message{}, nil, nil, vFault{}
	}
	_, seg, err := capnp.NewMessage(capnp.SingleSegment(nil))
	vAssume(err == nil)
	msg, err := rpccp.NewRootMessage(seg)
	vAssume(err == nil)
	send := func() error {
		t.sends++
		t.lastWhich = append(t.lastWhich, msg.Which())
		rid := uint32(0)
		relp := false
		if msg.Which() == rpccp.Message_Which_return {
			if r, err := msg.Return(); err == nil {
				rid = r.AnswerId()
				relp = r.ReleaseParamCaps()
			}
		}
		t.returnIDs = append(t.returnIDs, rid)
		t.returnRelParams = append(t.returnRelParams, relp)
		if msg.Which() == rpccp.Message_Which_release {
			if r, err := msg.Release(); err == nil {
				t.releaseIDs = append(t.releaseIDs, r.Id())
				t.releaseCounts = append(t.releaseCounts, r.ReferenceCount())
			}
		}
		if t.conn != nil {
			vAssert(vLocksHeld() == 0, "C09.transport.send-called-without-conn-mutex")
		}
		if t.onSend != nil {
			t.onSend(msg.Which())
		}
		if t.faultSend && vNondetBool() {
			return vFault{}
		}
		t.delivered = append(t.delivered, msg.Which())
		return nil
	}
	release := func() { t.releases++ }
	return msg, send, release, nil
}

func (t *vTransport) RecvMessage(ctx context.Context) (rpccp.Message, capnp.ReleaseFunc, error) {
	return rpccp.Message{}, nil, vFault{}
}

func (t *vTransport) Close() error {
	t.closes++
	return nil
}

// vNewConn mirrors NewConn without the receive goroutine and its task count.
func vNewConn(t *vTransport, boot *capnp.Client) *Conn {
	bgctx, bgcancel := context.WithCancel(context.Background())
	c := &Conn{
		transport:    t,
		shut:         make(chan struct{}),
		bgctx:        bgctx,
		bgcancel:     bgcancel,
		answers:      make(map[answerID]*answer),
		imports:      make(map[importID]*impent),
		bootstrap:    boot,
		abortTimeout: 100,
	}
	t.conn = c
	// every other goroutine of the connection is quiescent in these harnesses: a wait that nothing in
	// the executed code can satisfy is a hang
	vNoBlock(true)
	return c
}

// vCtx: a caller context that may be cancelled asynchronously at any observation point

// vQuiescent: no internal lock is held
func vQuiescent(c *Conn, id string) {
	vAssert(vMutexFree(&c.mu), id+".conn-mutex-free")
	vAssert(vLocksHeld() == 0, id+".no-mutex-held")
	vAssert(c.sendCond == nil, id+".sender-lock-free")
}

func vCtxWithTimeout(parent context.Context, d int64) (context.Context, context.CancelFunc) {
	return context.WithCancel(parent)
}

func vIsDone(ctx context.Context) bool {
	select {
	case <-ctx.Done():
		return true
	default:
		return false
	}
}

// capnpSend: a call with an empty parameter struct whose PlaceArgs may fail
func capnpSend(placeFails bool) capnp.Send {
	return capnp.Send{
		Method:   capnp.Method{InterfaceID: 1, MethodID: 2},
		ArgsSize: capnp.ObjectSize{DataSize: 8},
		PlaceArgs: func(s capnp.Struct) error {
			if placeFails {
				return vFault{}
			}
			return nil
		},
	}
}

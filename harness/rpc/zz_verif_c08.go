package rpc

// C08 / C06 / C07: one step of the receive loop on an arbitrary peer message, from small real
// pre-states. The handler must not panic, must leave both locks free, and must either report a
// protocol violation (non-nil error -> Abort + shutdown by the caller) or answer per protocol.

import (
	"context"

	"capnproto.org/go/capnp/v3"
	rpccp "capnproto.org/go/capnp/v3/std/capnp/rpc"
)

// vRecvHook is a locally hosted capability
type vRecvHook struct {
	recvs, shutdowns int
	sync             bool // return synchronously from Recv
}

func (h *vRecvHook) Send(ctx context.Context, s capnp.Send) (*capnp.Answer, capnp.ReleaseFunc) {
	return capnp.ErrorAnswer(s.Method, vFault{}), func() {}
}

func (h *vRecvHook) Recv(ctx context.Context, r capnp.Recv) capnp.PipelineCaller {
	h.recvs++
	vAssert(vLocksHeld() == 0, "C08.application-called-without-conn-mutex")
	r.ReleaseArgs()
	if h.sync {
		r.Returner.Return(vFault{})
	}
	return nil
}
func (h *vRecvHook) Brand() capnp.Brand { return capnp.Brand{} }
func (h *vRecvHook) Shutdown()          { h.shutdowns++ }

type vPipeCaller struct{ recvs int }

func (p *vPipeCaller) PipelineSend(ctx context.Context, transform []capnp.PipelineOp, s capnp.Send) (*capnp.Answer, capnp.ReleaseFunc) {
	return capnp.ErrorAnswer(s.Method, vFault{}), func() {}
}
func (p *vPipeCaller) PipelineRecv(ctx context.Context, transform []capnp.PipelineOp, r capnp.Recv) capnp.PipelineCaller {
	p.recvs++
	vAssert(vLocksHeld() == 0, "C08.application-called-without-conn-mutex")
	r.ReleaseArgs()
	return nil
}

func vRecvMsg() rpccp.Message {
	_, seg, err := capnp.NewMessage(capnp.SingleSegment(nil))
	vAssume(err == nil)
	m, err := rpccp.NewRootMessage(seg)
	vAssume(err == nil)
	return m
}

// pre-state: export 0 is a local capability; answer 7 exists in one of three stages
func vPreState(c *Conn, hook *vRecvHook, stage int) *vPipeCaller {
	c.exports = []*expent{{client: capnp.NewClient(hook), wireRefs: 1}}
	pc := &vPipeCaller{}
	switch stage {
	case 1: // answer 7 returned an exception
		c.answers[7] = errorAnswer(c, 7, vFault{})
	case 2: // answer 7 not yet returned: pipelined calls are queued on its PipelineCaller
		c.answers[7] = &answer{c: c, id: 7, pcall: pc}
	case 3: // answer 7 is a returned Bootstrap answer whose result is a locally hosted capability
		t := c.transport.(*vTransport)
		fn, fs := t.faultNewMessage, t.faultSend
		t.faultNewMessage, t.faultSend = false, false
		c.bootstrap = capnp.NewClient(&vRecvHook{})
		vAssume(c.handleBootstrap(c.bgctx, 7) == nil)
		t.faultNewMessage, t.faultSend = fn, fs
		t.lastWhich, t.returnIDs, t.delivered = nil, nil, nil
	}
	return pc
}

func VH_C08_handle_call() {
	t := &vTransport{faultNewMessage: true, faultSend: true}
	c := vNewConn(t, nil)
	hook := &vRecvHook{sync: vNondetBool()}
	stage := vConcI(int(vNondetU8()), 4)
	pc := vPreState(c, hook, stage)
	m := vRecvMsg()
	call, err := m.NewCall()
	vAssume(err == nil)
	qid := vNondetU32()
	call.SetQuestionId(qid)
	call.SetInterfaceId(vNondetU64())
	call.SetMethodId(vNondetU16())
	if vNondetBool() {
		call.SendResultsTo().SetYourself()
	}
	tgt, err := call.NewTarget()
	vAssume(err == nil)
	switch vConcI(int(vNondetU8()), 4) {
	case 3:
		// a target kind this implementation does not know (a newer peer): the union discriminant is
		// neither importedCap nor promisedAnswer
		tgt.SetImportedCap(vNondetU32())
		w := vNondetU16()
		vAssume(w >= 2)
		tgt.Struct.SetUint16(4, w)
	case 0:
		tgt.SetImportedCap(vNondetU32())
	case 1:
		pa, err := tgt.NewPromisedAnswer()
		vAssume(err == nil)
		pa.SetQuestionId(vNondetU32())
		if vNondetBool() {
			ops, err := pa.NewTransform(1)
			vAssume(err == nil)
			if vNondetBool() {
				ops.At(0).SetGetPointerField(vNondetU16())
			} else {
				ops.At(0).SetNoop()
			}
		}
	default:
		// target left at its default (importedCap 0)
	}
	params := vConcI(int(vNondetU8()), 3)
	if params >= 1 {
		pl, err := call.NewParams()
		vAssume(err == nil)
		args, err := capnp.NewStruct(pl.Segment(), capnp.ObjectSize{DataSize: 8})
		vAssume(err == nil && pl.SetContent(args.ToPtr()) == nil)
		if params == 2 {
			// one capability descriptor of an arbitrary kind with an arbitrary id
			ct, err := pl.NewCapTable(1)
			vAssume(err == nil)
			d := ct.At(0)
			switch vConcI(int(vNondetU8()), 5) {
			case 0:
				d.SetNone()
			case 1:
				d.SetSenderHosted(vNondetU32())
			case 2:
				d.SetSenderPromise(vNondetU32())
			case 3:
				d.SetReceiverHosted(vNondetU32())
			default:
				_, err := d.NewThirdPartyHosted()
				vAssume(err == nil)
			}
		}
	}
	vRegion("params_unreadable", params == 0)
	vRegion("target_answer_not_returned", stage == 2)
	released := 0
	if vNondetBool() {
		c.bgcancel() // the connection is shutting down while the message is handled
	}
	herr := c.handleCall(c.bgctx, call, func() { released++ })
	vReach("returned")
	vQuiescent(c, "C08.call")
	vAssert(released <= 1, "C08.call.message-released-at-most-once")
	// C06: at most one Return is sent for this call, and it carries the call's own answer id
	nret := 0
	for i, w := range t.lastWhich {
		if w == rpccp.Message_Which_return {
			nret++
			vAssert(t.returnIDs[i] == qid, "C06.call.return-carries-own-answer-id")
		}
	}
	vAssert(nret <= 1, "C06.call.at-most-one-return")
	if herr != nil {
		vAssert(nret == 0, "C06.call.no-return-on-protocol-violation")
	}
	_ = pc
}

// Return / Finish / Release with arbitrary ids: index safety, lock balance, protocol errors
func VH_C08_handle_return() {
	t := &vTransport{faultNewMessage: true, faultSend: true}
	c := vNewConn(t, nil)
	// zero, one or two outstanding questions
	nq := vConcI(int(vNondetU8()), 3)
	c.mu.Lock()
	for i := 0; i < nq; i++ {
		c.newQuestion(capnp.Method{})
	}
	c.mu.Unlock()
	m := vRecvMsg()
	ret, err := m.NewReturn()
	vAssume(err == nil)
	aid := vNondetU32()
	ret.SetAnswerId(aid)
	switch vConcI(int(vNondetU8()), 5) {
	case 0:
		// results left unset (null payload)
	case 1:
		pl, err := ret.NewResults()
		vAssume(err == nil)
		s, err := capnp.NewStruct(pl.Segment(), capnp.ObjectSize{DataSize: 8})
		vAssume(err == nil && pl.SetContent(s.ToPtr()) == nil)
	case 2:
		exc, err := ret.NewException()
		vAssume(err == nil)
		exc.SetType(rpccp.Exception_Type(vNondetU16()))
	case 3:
		ret.SetCanceled()
	default:
		ret.SetTakeFromOtherQuestion(vNondetU32())
	}
	released := 0
	closing := vNondetBool()
	if closing {
		c.bgcancel() // the connection is shutting down while the message is handled
	}
	herr := c.handleReturn(c.bgctx, ret, func() { released++ })
	vReach("returned")
	vQuiescent(c, "C08.return")
	if int64(aid) >= int64(nq) {
		vAssert(herr != nil, "C08.return.unknown-question-is-a-protocol-error")
	} else {
		vAssert(herr == nil, "C08.return.known-question-accepted")
		vAssert(c.questions[aid] == nil, "C06.return.question-resolved-once")
		// a second Return for the same id is a protocol error, not a crash
		m2 := vRecvMsg()
		ret2, err := m2.NewReturn()
		vAssume(err == nil)
		ret2.SetAnswerId(aid)
		herr2 := c.handleReturn(c.bgctx, ret2, func() {})
		vAssert(herr2 != nil, "C08.return.reused-id-is-a-protocol-error")
		vQuiescent(c, "C08.return.second")
	}
}

func VH_C08_handle_finish_release() {
	t := &vTransport{faultNewMessage: true, faultSend: true}
	c := vNewConn(t, nil)
	hook := &vRecvHook{}
	vPreState(c, hook, vConcI(int(vNondetU8()), 3))
	vReach("entry")
	if vNondetBool() {
		err := c.handleFinish(c.bgctx, answerID(vNondetU32()), vNondetBool())
		vQuiescent(c, "C08.finish")
		_ = err
	} else {
		id := vNondetU32()
		count := vNondetU32()
		err := c.handleRelease(c.bgctx, exportID(id), count)
		vQuiescent(c, "C08.release")
		// C07: export 0 has one wire reference
		switch {
		case id != 0:
			vAssert(err != nil, "C07.release.unknown-export-is-an-error")
			vAssert(hook.shutdowns == 0 && c.exports[0] != nil && c.exports[0].wireRefs == 1, "C07.release.unknown-export-changes-nothing")
		case count > 1:
			vAssert(err != nil, "C07.release.more-than-held-is-an-error")
			vAssert(hook.shutdowns == 0 && c.exports[0] != nil && c.exports[0].wireRefs == 1, "C07.release.over-release-changes-nothing")
		case count == 1:
			vAssert(err == nil && c.exports[0] == nil && hook.shutdowns == 1, "C07.release.last-reference-drops-export-and-releases-capability-once")
		default:
			vAssert(err == nil && c.exports[0] != nil && c.exports[0].wireRefs == 1 && hook.shutdowns == 0, "C07.release.zero-count-is-a-noop")
		}
	}
}

func VH_C08_handle_disembargo_unknown() {
	t := &vTransport{faultNewMessage: true, faultSend: true}
	c := vNewConn(t, nil)
	hook := &vRecvHook{}
	vPreState(c, hook, vConcI(int(vNondetU8()), 4))
	m := vRecvMsg()
	d, err := m.NewDisembargo()
	vAssume(err == nil)
	tgt, err := d.NewTarget()
	vAssume(err == nil)
	if vNondetBool() {
		tgt.SetImportedCap(vNondetU32())
	} else {
		pa, err := tgt.NewPromisedAnswer()
		vAssume(err == nil)
		if vNondetBool() {
			pa.SetQuestionId(7)
		} else {
			pa.SetQuestionId(vNondetU32())
		}
	}
	switch vConcI(int(vNondetU8()), 4) {
	case 0:
		d.Context().SetSenderLoopback(vNondetU32())
	case 1:
		d.Context().SetReceiverLoopback(vNondetU32())
	case 2:
		d.Context().SetAccept()
	default:
		d.Context().SetProvide(vNondetU32())
	}
	herr := c.handleDisembargo(c.bgctx, d)
	vReach("returned")
	vQuiescent(c, "C08.disembargo")
	_ = herr
}

// an unknown message kind is echoed as Unimplemented
func VH_C08_unknown_message() {
	t := &vTransport{faultNewMessage: true, faultSend: true}
	c := vNewConn(t, nil)
	m := vRecvMsg()
	switch vConcI(int(vNondetU8()), 3) {
	case 0:
		_, err := m.NewProvide()
		vAssume(err == nil)
	case 1:
		_, err := m.NewAccept()
		vAssume(err == nil)
	default:
		_, err := m.NewJoin()
		vAssume(err == nil)
	}
	before := t.sends
	herr := c.handleUnknownMessage(c.bgctx, m)
	vReach("returned")
	vQuiescent(c, "C08.unknown")
	if herr == nil && t.sends > before {
		vAssert(t.lastWhich[len(t.lastWhich)-1] == rpccp.Message_Which_unimplemented, "C08.unknown.unimplemented-echo")
	}
}

func vConcI(x, n int) int {
	for i := 0; i < n; i++ {
		if x == i {
			return i
		}
	}
	vAssume(false)
	return 0
}

// an unknown message that cannot be echoed (it contains an out-of-bounds pointer, so copying it into
// the Unimplemented message fails) is reported, and the connection stays usable
func VH_C08_unknown_message_uncopyable() {
	t := &vTransport{faultNewMessage: true, faultSend: true}
	c := vNewConn(t, nil)
	m := vRecvMsg()
	_, err := m.NewProvide()
	vAssume(err == nil)
	data, err := m.Message().Marshal()
	vAssume(err == nil && len(data) >= 40)
	// the root struct has one data word and one pointer: its pointer word is at byte 8 (header)
	// + 8 (root pointer) + 8 (data word) = 24. Make it a struct pointer far outside the segment.
	for i, b := range []byte{0x00, 0x40, 0x00, 0x00, 0x01, 0x00, 0x00, 0x00} {
		data[24+i] = b
	}
	msg2, err := capnp.Unmarshal(data)
	vAssume(err == nil)
	recv, err := rpccp.ReadRootMessage(msg2)
	vAssume(err == nil)
	herr := c.handleUnknownMessage(c.bgctx, recv)
	vReach("returned")
	vQuiescent(c, "C08.uncopyable")
	_ = herr
	// the connection is still usable: a Bootstrap request is answered
	t.faultNewMessage, t.faultSend = false, false
	vAssert(c.handleBootstrap(c.bgctx, 9) == nil, "C08.uncopyable.connection-still-answers")
	vQuiescent(c, "C08.uncopyable.after")
}

package rpc

// C07 / C08 / C09: send windows. While a message is being written the sender holds the sender lock
// but NOT Conn.mu, so the receive loop can handle any incoming message in that window. The transport
// of these harnesses starts one receive-loop step as a goroutine inside its send function
// (vTransport.onSend) and lets it run until it finishes or has to wait for the sender (cooperative
// goroutines): every pair (operation that sends, message handled in its window) below is executed on
// the real tables.
// Afterwards nothing is locked, nothing panicked, and Close releases every capability exactly once.

import (
	"context"

	"capnproto.org/go/capnp/v3"
	rpccp "capnproto.org/go/capnp/v3/std/capnp/rpc"
)

func VH_C07_send_windows() {
	t := &vTransport{}
	c := vNewConn(t, nil)
	exp := &vRecvHook{sync: true}
	boot := &vRecvHook{}
	vAssume(c.exportID.next() == 0)
	c.exports = []*expent{{client: capnp.NewClient(exp), wireRefs: 1}}
	c.bootstrap = capnp.NewClient(boot)
	vAssume(c.handleBootstrap(c.bgctx, 7) == nil) // answer 7: returned, not finished; exports the bootstrap capability
	c.mu.Lock()
	imp := c.addImport(5)
	c.mu.Unlock()
	t.lastWhich, t.returnIDs, t.delivered, t.releaseIDs, t.releaseCounts = nil, nil, nil, nil, nil
	base := t.newMsgs

	window := vConcI(int(vNondetU8()), 5)
	fired, handled := false, false
	relCaps := vNondetBool()
	var imp2 *capnp.Client
	var werr error
	t.onSend = func(w rpccp.Message_Which) {
		if fired {
			return
		}
		fired = true
		go func() {
			switch window {
			case 0: // the peer drops its reference to export 0
				werr = c.handleRelease(c.bgctx, 0, 1)
			case 1: // the peer finishes the bootstrap answer, asking for its capability to be released or not
				werr = c.handleFinish(c.bgctx, 7, relCaps)
			case 2: // the peer sends another reference to import 5
				c.mu.Lock()
				imp2 = c.addImport(5)
				c.mu.Unlock()
			case 3: // the peer releases an export that does not exist (protocol error, must not corrupt)
				werr = c.handleRelease(c.bgctx, 9, 1)
			default:
			}
			vAssert(vLocksHeld() == 0, "C08.window.handler-leaves-no-lock")
			handled = true
		}()
		vSettle() // the receive loop runs until it is done or needs what the sender holds
	}
	op := vConcI(int(vNondetU8()), 3)
	switch op {
	case 0: // the last local reference to import 5 goes away: Release
		imp.Release()
		imp = nil
	case 1: // a call on import 5, then its answer is released: Call, Finish
		ans, rel := imp.SendCall(context.Background(), capnpSend(false))
		vSettle()
		// the peer answers with an exception; then the local side lets go of the answer
		rm := vRecvMsg()
		ret, err := rm.NewReturn()
		vAssume(err == nil)
		ret.SetAnswerId(0)
		exc, err := ret.NewException()
		vAssume(err == nil)
		exc.SetType(rpccp.Exception_Type_failed)
		_ = ans
		vAssert(c.handleReturn(c.bgctx, ret, func() {}) == nil, "C08.window.return-accepted")
		rel()
	default: // an incoming call on export 0 that returns at once: Return
		m := vRecvMsg()
		call, err := m.NewCall()
		vAssume(err == nil)
		call.SetQuestionId(3)
		tgt, err := call.NewTarget()
		vAssume(err == nil)
		tgt.SetImportedCap(0)
		pl, err := call.NewParams()
		vAssume(err == nil)
		args, err := capnp.NewStruct(pl.Segment(), capnp.ObjectSize{DataSize: 8})
		vAssume(err == nil && pl.SetContent(args.ToPtr()) == nil)
		herr := c.handleCall(c.bgctx, call, func() {})
		if window != 0 {
			vAssert(herr == nil, "C08.window.call-handled")
		}
	}
	vSettle() // the handler started in the window finishes now that the sender is done
	vReach("operation-done")
	vAssert(!fired || handled, "C09.window.handler-completes-after-the-send")
	vAssert(fired || t.newMsgs == base, "C09.window.send-happened")
	vQuiescent(c, "C09.window.after-operation")
	if window == 3 {
		vAssert(werr != nil, "C08.window.unknown-export-is-a-protocol-error")
	}
	if window == 2 && imp2 != nil {
		ent := c.imports[5]
		vAssert(ent != nil && ent.wireRefs >= 1, "C07.window.concurrent-import-has-a-table-entry")
	}
	// tear down: local references go, then Close
	t.onSend = nil
	if imp != nil {
		imp.Release()
	}
	if imp2 != nil {
		imp2.Release()
	}
	vQuiescent(c, "C09.window.after-release")
	vAssert(c.imports[5] == nil, "C07.window.import-entry-gone-after-last-release")
	cerr := c.Close()
	vReach("closed")
	vAssert(cerr == nil, "C09.window.close-ok")
	vQuiescent(c, "C09.window.after-close")
	vAssert(exp.shutdowns == 1, "C07.window.export-released-exactly-once")
	vAssert(boot.shutdowns == 1, "C07.window.bootstrap-capability-released-exactly-once")
}

// Embargo (C06 ordering clause): calls made on an embargoed capability wait until the Disembargo
// comes back - none reaches the target before - and are then delivered; a call whose context is
// cancelled while embargoed fails without ever reaching the target; after the lift calls go straight
// through; releasing the embargoed client releases the target exactly once.
func VH_C06_embargo_holds_calls() {
	t := &vTransport{}
	c := vNewConn(t, nil)
	tgt := &vRecvHook{sync: true}
	target := capnp.NewClient(tgt)
	c.mu.Lock()
	id, ec := c.embargo(target)
	c.mu.Unlock()
	vAssert(c.findEmbargo(id) != nil, "C06.embargo.entry-recorded")
	sent, cancelledDone := 0, false
	go func() {
		_, rel := ec.SendCall(context.Background(), capnpSend(false))
		rel()
		sent++
	}()
	cctx, cancel := context.WithCancel(context.Background())
	go func() {
		ans, rel := ec.SendCall(cctx, capnpSend(false))
		_, err := ans.Struct()
		vAssert(err != nil, "C06.embargo.cancelled-call-fails")
		rel()
		cancelledDone = true
	}()
	vSettle()
	vReach("embargoed")
	vAssert(tgt.recvs == 0 && sent == 0, "C06.embargo.no-call-passes-before-the-disembargo")
	cancel()
	vSettle()
	vAssert(cancelledDone && tgt.recvs == 0, "C06.embargo.cancelled-call-never-reaches-the-target")
	// the Disembargo arrives (receiverLoopback with this id)
	m := vRecvMsg()
	d, err := m.NewDisembargo()
	vAssume(err == nil)
	d.Context().SetReceiverLoopback(uint32(id))
	dt, err := d.NewTarget()
	vAssume(err == nil)
	dt.SetImportedCap(0)
	herr := c.handleDisembargo(c.bgctx, d)
	vSettle()
	vReach("lifted")
	vAssert(herr == nil, "C06.embargo.disembargo-accepted")
	vAssert(sent == 1, "C06.embargo.held-call-delivered-after-the-lift")
	vAssert(c.findEmbargo(id) == nil, "C06.embargo.entry-removed")
	vQuiescent(c, "C06.embargo")
	before := tgt.recvs + tgt.shutdowns
	_, rel := ec.SendCall(context.Background(), capnpSend(false))
	rel()
	_ = before
	vAssert(tgt.shutdowns == 0, "C06.embargo.target-alive-while-referenced")
	ec.Release()
	vAssert(tgt.shutdowns == 1, "C06.embargo.target-released-exactly-once")
	// a second Disembargo for the same id is a protocol error, not a crash
	herr = c.handleDisembargo(c.bgctx, d)
	vAssert(herr != nil, "C06.embargo.unknown-id-is-a-protocol-error")
	vQuiescent(c, "C06.embargo.second")
}

// vRet records what a Returner is told
type vRet struct {
	allocs, returns int
	err             error
	res             capnp.Struct
}

func (r *vRet) AllocResults(sz capnp.ObjectSize) (capnp.Struct, error) {
	r.allocs++
	_, seg, err := capnp.NewMessage(capnp.SingleSegment(nil))
	if err != nil {
		return capnp.Struct{}, err
	}
	s, err := capnp.NewStruct(seg, sz)
	r.res = s
	return s, err
}

func (r *vRet) Return(e error) { r.returns++; r.err = e }

// A received call whose target is an import is forwarded to the peer (importClient.Recv): the
// arguments reach the outgoing Call, the original caller's Returner is completed exactly once - with
// a copy of the peer's results, with the peer's exception, or with the transport's error when the
// forwarded call could not be sent - and the forwarded question is finished; no lock is left held.
func VH_C09_import_recv_proxy() {
	t := &vTransport{faultNewMessage: true, faultSend: true}
	c := vNewConn(t, nil)
	c.mu.Lock()
	imp := c.addImport(5)
	c.mu.Unlock()
	_, seg, err := capnp.NewMessage(capnp.SingleSegment(nil))
	vAssume(err == nil)
	args, err := capnp.NewStruct(seg, capnp.ObjectSize{DataSize: 8})
	vAssume(err == nil)
	a := vNondetU64()
	args.SetUint64(0, a)
	ret := &vRet{}
	relArgs := 0
	pc := imp.RecvCall(context.Background(), capnp.Recv{
		Method: capnp.Method{InterfaceID: 1, MethodID: 2}, Args: args,
		ReleaseArgs: func() { relArgs++ }, Returner: ret,
	})
	vSettle()
	vReach("forwarded")
	vQuiescent(c, "C09.proxy.forward")
	vAssert(relArgs >= 1, "C09.proxy.arguments-released")
	sentCall := false
	for _, w := range t.delivered {
		if w == rpccp.Message_Which_call {
			sentCall = true
		}
	}
	if !sentCall {
		vAssert(ret.returns == 1 && ret.err != nil, "C09.proxy.unsent-call-fails-the-caller-exactly-once")
		vAssert(pc == nil || true, "C09.proxy.pipeline")
		return
	}
	vAssert(ret.returns == 0, "C09.proxy.no-return-before-the-peer-answers")
	// the peer answers: results or an exception
	t.faultNewMessage, t.faultSend = false, false
	x := vNondetU64()
	rm := vRecvMsg()
	r, err := rm.NewReturn()
	vAssume(err == nil)
	r.SetAnswerId(0)
	exceptional := vNondetBool()
	if exceptional {
		exc, err := r.NewException()
		vAssume(err == nil)
		exc.SetType(rpccp.Exception_Type_failed)
	} else {
		pl, err := r.NewResults()
		vAssume(err == nil)
		s, err := capnp.NewStruct(pl.Segment(), capnp.ObjectSize{DataSize: 8})
		vAssume(err == nil && pl.SetContent(s.ToPtr()) == nil)
		s.SetUint64(0, x)
	}
	vAssert(c.handleReturn(c.bgctx, r, func() {}) == nil, "C09.proxy.return-accepted")
	vSettle()
	vReach("answered")
	vAssert(ret.returns == 1, "C09.proxy.caller-completed-exactly-once")
	if exceptional {
		vAssert(ret.err != nil, "C09.proxy.peer-exception-reaches-the-caller")
	} else {
		vAssert(ret.err == nil && ret.allocs == 1 && ret.res.Uint64(0) == x, "C09.proxy.peer-results-copied-to-the-caller")
	}
	vQuiescent(c, "C09.proxy.answered")
	nfin := 0
	for _, w := range t.delivered {
		if w == rpccp.Message_Which_finish {
			nfin++
		}
	}
	vAssert(nfin == 1, "C09.proxy.forwarded-question-finished-once")
	imp.Release()
	vQuiescent(c, "C09.proxy.released")
}

// Shutdown with an embargo still pending (the peer aborts or the connection is closed before the
// Disembargo comes back): the embargo is lifted, so a call held by it completes - delivered to the
// local capability or failed - instead of hanging forever, and the embargoed client stays usable.
func VH_C09_close_lifts_embargoes() {
	t := &vTransport{}
	c := vNewConn(t, nil)
	tgt := &vRecvHook{sync: true}
	target := capnp.NewClient(tgt)
	c.mu.Lock()
	_, ec := c.embargo(target)
	c.mu.Unlock()
	done := false
	go func() {
		_, rel := ec.SendCall(context.Background(), capnpSend(false))
		rel()
		done = true
	}()
	vSettle()
	vAssert(!done && tgt.recvs == 0, "C09.embargo.call-held")
	cerr := c.Close()
	vSettle()
	vReach("closed")
	vAssert(cerr == nil, "C09.embargo.close-ok")
	vAssert(done, "C09.embargo.held-call-completes-at-shutdown")
	vQuiescent(c, "C09.embargo.close")
	ec.Release()
	vAssert(tgt.shutdowns == 1, "C09.embargo.target-released-exactly-once")
}

package rpc

import (
	"context"
)

// Close, once or repeatedly, returns with no lock held; the second call is an error
func VH_C09_close_twice() {
	t := &vTransport{faultNewMessage: true, faultSend: true}
	c := vNewConn(t, nil)
	err := c.Close()
	vReach("closed")
	vAssert(err == nil, "C09.close.first-ok")
	vQuiescent(c, "C09.close.first")
	vAssert(t.closes == 1, "C09.close.transport-closed-once")
	vRegion("second_close", true)
	err = c.Close()
	vReach("closed-again")
	vAssert(err != nil, "C09.close.second-is-an-error")
	vQuiescent(c, "C09.close.second")
	vAssert(t.closes == 1, "C09.close.transport-not-closed-again")
	// operations after Close complete with errors
	bc := c.Bootstrap(context.Background())
	vQuiescent(c, "C09.close.bootstrap-after")
	vAssert(bc != nil, "C09.close.bootstrap-after-returns-error-client")
}

// Bootstrap under every combination of transport faults
func VH_C09_bootstrap_faults() {
	t := &vTransport{faultNewMessage: true, faultSend: true}
	c := vNewConn(t, nil)
	bc := c.Bootstrap(context.Background())
	vReach("returned")
	vAssert(bc != nil, "C09.bootstrap.returns-a-client")
	vQuiescent(c, "C09.bootstrap")
	// a failed Bootstrap frees its question id (no Bootstrap was sent for it)
	if t.sends == 0 {
		vAssert(len(c.questions) == 0 || c.questions[0] == nil, "C09.bootstrap.failed-question-dropped")
	}
	// and the connection is still usable / closable
	err := c.Close()
	vQuiescent(c, "C09.bootstrap.close-after")
	_ = err
}

// a call on an imported capability under every combination of transport faults
func VH_C09_import_send_faults() {
	t := &vTransport{faultNewMessage: true, faultSend: true}
	c := vNewConn(t, nil)
	c.mu.Lock()
	client := c.addImport(importID(vNondetU32()))
	c.mu.Unlock()
	vRegion("newmessage_failed", true)
	cctx, ccancel := vCallerCtx()
	defer ccancel()
	before := t.otherCtxSeen
	ans, rel := client.SendCall(cctx, capnpSend(vNondetBool()))
	vReach("returned")
	vAssert(ans != nil && rel != nil, "C09.import.send.returns-an-answer")
	vAssert(t.otherCtxSeen == before, "C09.import.send.bounded-by-the-callers-context")
	vQuiescent(c, "C09.import.send")
	if t.sends == 0 {
		vAssert(len(c.questions) == 0 || c.questions[0] == nil, "C09.import.send.failed-question-dropped")
	}
}

// a pipelined call on an unreturned question under every combination of transport faults
func VH_C09_pipeline_send_faults() {
	t := &vTransport{}
	c := vNewConn(t, nil)
	bc := c.Bootstrap(context.Background()) // succeeds: question 0 outstanding
	vAssume(t.sends == 1)
	t.faultNewMessage, t.faultSend = true, true
	vRegion("newmessage_failed", true)
	cctx, ccancel := vCallerCtx()
	defer ccancel()
	before := t.otherCtxSeen
	ans, rel := bc.SendCall(cctx, capnpSend(vNondetBool()))
	vReach("returned")
	vAssert(ans != nil && rel != nil, "C09.pipeline.send.returns-an-answer")
	vAssert(t.otherCtxSeen == before, "C09.pipeline.send.bounded-by-the-callers-context")
	vQuiescent(c, "C09.pipeline.send")
}

// H-torn: after a torn write (some, but not all, bytes of a frame were accepted by the stream) no
// further bytes are written to the stream.
type vRWC struct {
	accepted int // bytes accepted in total
	writes   int
	fail     bool // writes may fail from now on
	failed   bool // a Write of the frame being sent has failed
}

func (w *vRWC) Read(p []byte) (int, error) { return 0, vFault{} }
func (w *vRWC) Close() error               { return nil }
func (w *vRWC) Write(b []byte) (int, error) {
	// once a Write of a frame has failed the rest of that frame must not be written: the peer would
	// read it as the continuation of something that never arrived
	vAssert(!w.failed, "C09.torn.nothing-written-after-a-failed-write-of-the-same-frame")
	w.writes++
	if w.fail && vNondetBool() {
		w.failed = true
		// a failing write accepts none or some of the bytes
		n := 0
		if len(b) > 1 && vNondetBool() {
			n = 1
		}
		w.accepted += n
		return n, vFault{}
	}
	w.accepted += len(b)
	return len(b), nil
}

func vTorn(packed bool) {
	w := &vRWC{fail: true}
	var t Transport
	if packed {
		t = NewPackedStreamTransport(w)
	} else {
		t = NewStreamTransport(w)
	}
	ctx := context.Background()
	msg, send, release, err := t.NewMessage(ctx)
	vAssume(err == nil)
	boot, err := msg.NewBootstrap()
	vAssume(err == nil)
	boot.SetQuestionId(vNondetU32())
	serr := send()
	release()
	vReach("sent")
	vAssert(!w.failed || serr != nil, "C09.torn.failed-write-fails-the-send")
	w.failed = false
	frameBytes := w.accepted
	if serr == nil {
		vAssert(frameBytes > 0, "C09.torn.successful-send-wrote-the-frame")
		return
	}
	torn := frameBytes > 0 // the send failed although part of the frame was accepted
	vRegion("torn_write", torn)
	// any further use of the transport
	writesBefore := w.writes
	w.fail = false
	msg2, send2, release2, err2 := t.NewMessage(ctx)
	if err2 == nil {
		b2, err := msg2.NewBootstrap()
		vAssume(err == nil)
		b2.SetQuestionId(1)
		err2 = send2()
		release2()
	}
	if torn {
		vAssert(w.writes == writesBefore, "C09.torn.no-bytes-written-after-a-torn-write")
		vAssert(err2 != nil, "C09.torn.later-sends-fail")
	}
}

func VH_C09_torn_write()        { vTorn(false) }
func VH_C09_torn_write_packed() { vTorn(true) }

// ---- two goroutines (vPar: every interleaving of their synchronisation operations) ----

// Close races with a Bootstrap request: both return, nothing stays locked, no deadlock
func VH_C09_par_close_vs_bootstrap() {
	t := &vTransport{faultNewMessage: true, faultSend: true}
	c := vNewConn(t, nil)
	var cerr error
	vPar(func() {
		cerr = c.Close()
	}, func() {
		bc := c.Bootstrap(context.Background())
		vAssert(bc != nil, "C09.par.bootstrap-returns")
	})
	vReach("joined")
	vAssert(cerr == nil, "C09.par.close-ok")
	vQuiescent(c, "C09.par.close-vs-bootstrap")
	vAssert(t.closes == 1, "C09.par.transport-closed-once")
}

// two concurrent Close calls: exactly one shuts the connection down, both return
func VH_C09_par_close_vs_close() {
	t := &vTransport{}
	c := vNewConn(t, nil)
	var e1, e2 error
	vPar(func() { e1 = c.Close() }, func() { e2 = c.Close() })
	vReach("joined")
	vAssert((e1 == nil) != (e2 == nil), "C09.par.exactly-one-close-succeeds")
	vQuiescent(c, "C09.par.close-vs-close")
	vAssert(t.closes == 1, "C09.par.close-close.transport-closed-once")
}

// One step of the sender-lock protocol from a pre-state in which ANOTHER goroutine holds the
// sender lock: tryLockSender returns with Conn.mu held in every case - the lock was handed over, the
// caller's context was cancelled, the connection is shutting down - and reports an error exactly
// when it did not get the lock.
func VH_C09_trylocksender_step() {
	t := &vTransport{}
	c := vNewConn(t, nil)
	c.mu.Lock()
	held := make(chan struct{})
	c.sendCond = held // somebody else is sending
	ctx, cancel := context.WithCancel(context.Background())
	mode := vConcI(int(vNondetU8()), 3)
	switch mode {
	case 0:
		cancel() // the caller gives up
	case 1:
		c.bgcancel() // the connection shuts down
	default:
		// the holder finishes its send while we wait
		go func() {
			c.mu.Lock()
			c.unlockSender()
			c.mu.Unlock()
		}()
	}
	err := c.tryLockSender(ctx)
	vReach("returned")
	vAssert(!vMutexFree(&c.mu) && vLocksHeld() == 1, "C09.trylock.returns-with-conn-mutex-held")
	if mode == 2 {
		vAssert(err == nil && c.sendCond != nil && c.sendCond != held, "C09.trylock.acquired-after-handover")
		if err == nil {
			c.unlockSender()
		}
	} else {
		vAssert(err != nil, "C09.trylock.reports-why-it-gave-up")
		vAssert(c.sendCond == held, "C09.trylock.does-not-steal-the-lock")
	}
	c.mu.Unlock()
	vAssert(vLocksHeld() == 0, "C09.trylock.no-lock-held")
	cancel()
}

// The sender lock with TWO goroutines waiting for it: when the holder lets go exactly one of them
// gets it, the other one keeps waiting until that one lets go too - never two holders at once, and
// every unlock finds the lock it took.
func VH_C09_locksender_two_waiters() {
	t := &vTransport{}
	c := vNewConn(t, nil)
	c.mu.Lock()
	c.lockSender() // the harness goroutine holds the sender lock
	c.mu.Unlock()
	holders, maxHolders, served := 0, 0, 0
	gate := make(chan struct{})
	waiter := func() {
		c.mu.Lock()
		c.lockSender()
		holders++
		if holders > maxHolders {
			maxHolders = holders
		}
		c.mu.Unlock()
		<-gate // "sending": the lock is held without Conn.mu
		c.mu.Lock()
		holders--
		c.unlockSender()
		c.mu.Unlock()
		served++
	}
	go waiter()
	go waiter()
	vSettle()
	vAssert(holders == 0, "C09.locksender.waiters-wait-while-the-lock-is-held")
	c.mu.Lock()
	c.unlockSender()
	c.mu.Unlock()
	vSettle()
	vReach("handed-over")
	vAssert(holders == 1 && maxHolders == 1, "C09.locksender.exactly-one-waiter-gets-the-lock")
	close(gate)
	vSettle()
	vReach("all-served")
	vAssert(served == 2 && maxHolders == 1, "C09.locksender.one-holder-at-a-time-and-everyone-is-served")
	vQuiescent(c, "C09.locksender")
}

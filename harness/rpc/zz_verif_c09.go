package rpc

import (
	"context"
)

// Close, once or repeatedly, returns with no lock held; the second call is an error
func VH_C09_close_twice() {
	t := &vTransport{faultNewMessage: true, faultSend: true}
	c := vNewConn(t, nil)
	err := c.Close()
	vReach("closed")
	vAssert(err == nil, "C09.close.first-ok")
	vQuiescent(c, "C09.close.first")
	vAssert(t.closes == 1, "C09.close.transport-closed-once")
	vRegion("second_close", true)
	err = c.Close()
	vReach("closed-again")
	vAssert(err != nil, "C09.close.second-is-an-error")
	vQuiescent(c, "C09.close.second")
	vAssert(t.closes == 1, "C09.close.transport-not-closed-again")
	// operations after Close complete with errors
	bc := c.Bootstrap(context.Background())
	vQuiescent(c, "C09.close.bootstrap-after")
	vAssert(bc != nil, "C09.close.bootstrap-after-returns-error-client")
}

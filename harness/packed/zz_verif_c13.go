package packed

import (
	"bufio"
	"io"
)

// C13: the packed codec. Reference packer/unpacker written from the packing section of the
// encoding spec (tag byte = bitmap of non-zero bytes; tag 0x00 is followed by a count of further
// all-zero words; tag 0xff by a count of words copied verbatim).

// refUnpack decodes p per the spec. ok=false: p is not a complete packed stream.
func refUnpack(p []byte, maxOut int) (out []byte, ok bool) {
	i := 0
	for i < len(p) {
		tag := p[i]
		i++
		var w [8]byte
		for b := 0; b < 8; b++ {
			if tag&(1<<uint(b)) != 0 {
				if i >= len(p) {
					return out, false
				}
				w[b] = p[i]
				i++
			}
		}
		out = append(out, w[:]...)
		if tag == 0 {
			if i >= len(p) {
				return out, false
			}
			n := int(p[i])
			i++
			for k := 0; k < 8*n; k++ {
				out = append(out, 0)
			}
		} else if tag == 0xff {
			if i >= len(p) {
				return out, false
			}
			n := int(p[i])
			i++
			if i+8*n > len(p) {
				return out, false
			}
			out = append(out, p[i:i+8*n]...)
			i += 8 * n
		}
		if len(out) > maxOut {
			return out, false
		}
	}
	return out, true
}

func vWords(n int) []byte { return vNondetBytes(8 * n) }

// vPatternWords returns n words whose zero/non-zero STRUCTURE is one of seven concrete masks per
// word (chosen nondeterministically: 7^n paths) while every non-zero byte keeps a symbolic value.
// Concrete structure keeps the codec's control flow concrete, so multi-word streams stay cheap.
func vPatternWords(n int) []byte {
	x := vNondetBytes(8 * n)
	for w := 0; w < n; w++ {
		var mask byte
		switch vNondetU8() % 7 {
		case 0:
			mask = 0x00
		case 1:
			mask = 0xff
		case 2:
			mask = 0x01
		case 3:
			mask = 0x80
		case 4:
			mask = 0x7f
		case 5:
			mask = 0xfe
		default:
			mask = 0x55
		}
		for b := 0; b < 8; b++ {
			if mask&(1<<uint(b)) != 0 {
				vAssume(x[8*w+b] != 0)
			} else {
				vAssume(x[8*w+b] == 0)
				x[8*w+b] = 0 // make it syntactically zero as well
			}
		}
	}
	return x
}

// H-roundtrip: Unpack(Pack(x)) == x, and the independent decoder reads Pack(x) as x
func vRoundtripOf(x []byte) { vRoundtripIdx(x, false) }

// vCompare asserts got[j] == want[j] for an arbitrary (symbolic) j, or - for the long run shapes,
// where a symbolic index into a 2 KiB array makes every query large - for every index of the first
// and last word and three middle indexes, each concrete.
func vCompare(got, want []byte, edges bool, id string) {
	n := len(want)
	if !edges {
		j := vNondetInt()
		vAssume(j >= 0 && j < n)
		vAssert(got[j] == want[j], id)
		return
	}
	for j := 0; j < 8; j++ {
		vAssert(got[j] == want[j], id)
		vAssert(got[n-8+j] == want[n-8+j], id)
	}
	for _, m := range []int{8, n / 2, n - 9} {
		vAssert(got[m] == want[m], id)
	}
}

func vRoundtripIdx(x []byte, edges bool) {
	n := len(x) / 8
	p := Pack(nil, x)
	vReach("packed")
	y, err := Unpack(nil, p)
	vAssert(err == nil, "C13.roundtrip.no-error")
	vAssert(len(y) == len(x), "C13.roundtrip.length")
	if len(y) == len(x) && len(x) > 0 {
		vCompare(y, x, edges, "C13.roundtrip.bytes")
	}
	r, ok := refUnpack(p, 8*n)
	vAssert(ok && len(r) == len(x), "C13.conformant.independent-decoder-accepts")
	if ok && len(r) == len(x) && len(x) > 0 {
		vCompare(r, x, edges, "C13.conformant.independent-decoder-bytes")
	}
	// packing never expands by more than a tag byte per word plus one count byte per run
	vAssert(len(p) <= 10*n, "C13.pack.size-bound")
}

// the streaming reader over Pack(x), with nondeterministic chunking of the underlying stream
func vStreamOf(x []byte) {
	p := Pack(nil, x)
	vReach("packed")
	vStreamAgrees(p, x)
}

func VH_C13_stream_1() { vStreamOf(vWords(1)) }
func VH_C13_stream_2() { vStreamOf(vPatternWords(2)) }
func VH_C13_stream_3() { vStreamOf(vPatternWords(3)) }

func VH_C13_roundtrip_1() { vRoundtripOf(vWords(1)) } // one word, all 2^64 values
func VH_C13_roundtrip_2() { vRoundtripOf(vPatternWords(2)) }
func VH_C13_roundtrip_3() { vRoundtripOf(vPatternWords(3)) }
func VH_C13_roundtrip_4() { vRoundtripOf(vPatternWords(4)) }

// H-runs: run-length limits. first and last word symbolic structure, r concrete middle words that
// are all zero (zero-run clamp at 255) or all non-zero (literal-run clamp at 255).
func vRuns(r int, zero bool) {
	x := make([]byte, 8*(r+2))
	first := vPatternWords(1)
	last := vPatternWords(1)
	copy(x, first)
	copy(x[8*(r+1):], last)
	if !zero {
		for i := 8; i < 8*(r+1); i++ {
			x[i] = byte(i%251) + 1
		}
	}
	vRoundtripIdx(x, true)
}

func VH_C13_runs_zero_254()    { vRuns(254, true) }
func VH_C13_runs_zero_255()    { vRuns(255, true) }
func VH_C13_runs_zero_256()    { vRuns(256, true) }
func VH_C13_runs_zero_257()    { vRuns(257, true) }
func VH_C13_runs_literal_254() { vRuns(254, false) }
func VH_C13_runs_literal_255() { vRuns(255, false) }
func VH_C13_runs_literal_256() { vRuns(256, false) }
func VH_C13_runs_literal_257() { vRuns(257, false) }

// H-agree / H-trunc on arbitrary packed bytes: the one-shot decoder accepts exactly the complete
// streams of the spec and returns the spec's bytes; anything else is an error, never invented data.
func vArbitrary(L int) {
	n := vNondetInt()
	vAssume(n >= 0 && n <= L)
	p := vNondetBytes(n)
	vArbitraryBytes(p)
}

func vArbitraryBytes(p []byte) {
	vReach("entry")
	y, err := Unpack(nil, p)
	r, ok := refUnpack(p, 1<<20)
	vRegion("literal_run_cut", true)
	if ok {
		vReach("complete")
		vAssert(err == nil, "C13.unpack.accepts-complete-stream")
		vAssert(len(y) == len(r), "C13.unpack.length")
		if err == nil && len(y) == len(r) && len(r) > 0 {
			j := vNondetInt()
			vAssume(j >= 0 && j < len(r))
			vAssert(y[j] == r[j], "C13.unpack.bytes")
		}
	} else {
		vReach("truncated")
		vAssert(err != nil, "C13.unpack.truncated-input-is-an-error")
	}
}

// vGroupLen is the number of packed bytes of the group that starts with tag t, not counting the
// literal words of an 0xff run: tag, one byte per set bit, and the count byte of 0x00 / 0xff.
func vGroupLen(t byte) int {
	n := 1
	for i := uint(0); i < 8; i++ {
		if t&(1<<i) != 0 {
			n++
		}
	}
	if t == 0 || t == 0xff {
		n++
	}
	return n
}

// one group with ANY tag byte, complete or cut anywhere (a cut 0xff group includes a count byte that
// promises literal words that are not there)
func VH_C13_group_any() {
	n := vNondetInt()
	vAssume(n >= 1 && n <= 10)
	p := vNondetBytes(n)
	vAssume(n <= vGroupLen(p[0]))
	vArbitraryBytes(p)
}

// two groups: the first complete with any tag whose high nibble is hi (an 0xff group with at most
// one literal word), the second with any tag, complete up to its count byte (an 0xff second group
// with a non-zero count is therefore a stream cut before its literal words)
func vGroupPair(hi byte) {
	n := vNondetInt()
	vAssume(n >= 2 && n <= 28)
	p := vNondetBytes(n)
	t1 := p[0]
	vAssume(t1>>4 == hi)
	g1 := vGroupLen(t1)
	vAssume(n > g1)
	if t1 == 0xff {
		c := int(p[9])
		vAssume(c <= 1)
		g1 += 8 * c
		vAssume(n > g1)
	}
	vAssume(n-g1 == vGroupLen(p[g1]))
	vArbitraryBytes(p)
}

func VH_C13_pair_0() { vGroupPair(0) }
func VH_C13_pair_1() { vGroupPair(1) }
func VH_C13_pair_2() { vGroupPair(2) }
func VH_C13_pair_3() { vGroupPair(3) }
func VH_C13_pair_4() { vGroupPair(4) }
func VH_C13_pair_5() { vGroupPair(5) }
func VH_C13_pair_6() { vGroupPair(6) }
func VH_C13_pair_7() { vGroupPair(7) }
func VH_C13_pair_8() { vGroupPair(8) }
func VH_C13_pair_9() { vGroupPair(9) }
func VH_C13_pair_a() { vGroupPair(10) }
func VH_C13_pair_b() { vGroupPair(11) }
func VH_C13_pair_c() { vGroupPair(12) }
func VH_C13_pair_d() { vGroupPair(13) }
func VH_C13_pair_e() { vGroupPair(14) }
func VH_C13_pair_f() { vGroupPair(15) }

// every packed string of at most L bytes whose first byte has high nibble hi (shards of vArbitrary)
func vArbitraryShard(L int, hi byte) {
	n := vNondetInt()
	vAssume(n >= 1 && n <= L)
	p := vNondetBytes(n)
	vAssume(p[0]>>4 == hi)
	vArbitraryBytes(p)
}

func VH_C13_arb6_0() { vArbitraryShard(6, 0) }
func VH_C13_arb6_1() { vArbitraryShard(6, 1) }
func VH_C13_arb6_2() { vArbitraryShard(6, 2) }
func VH_C13_arb6_3() { vArbitraryShard(6, 3) }
func VH_C13_arb6_4() { vArbitraryShard(6, 4) }
func VH_C13_arb6_5() { vArbitraryShard(6, 5) }
func VH_C13_arb6_6() { vArbitraryShard(6, 6) }
func VH_C13_arb6_7() { vArbitraryShard(6, 7) }
func VH_C13_arb6_8() { vArbitraryShard(6, 8) }
func VH_C13_arb6_9() { vArbitraryShard(6, 9) }
func VH_C13_arb6_a() { vArbitraryShard(6, 10) }
func VH_C13_arb6_b() { vArbitraryShard(6, 11) }
func VH_C13_arb6_c() { vArbitraryShard(6, 12) }
func VH_C13_arb6_d() { vArbitraryShard(6, 13) }
func VH_C13_arb6_e() { vArbitraryShard(6, 14) }
func VH_C13_arb6_f() { vArbitraryShard(6, 15) }
func VH_C13_arbitrary_4()  { vArbitrary(4) }

// ---- streaming reader ----

// vStream is an io.Reader over a byte slice that returns nondeterministic chunk sizes.
type vStream struct {
	data []byte
	pos  int
	mode int // 0: every mixture of 1-byte and full reads; 1: always full; 2: always one byte
}

func (s *vStream) Read(p []byte) (int, error) {
	if s.pos >= len(s.data) {
		return 0, io.EOF
	}
	if len(p) == 0 {
		return 0, nil
	}
	max := len(s.data) - s.pos
	if len(p) < max {
		max = len(p)
	}
	// chunking: one byte or everything that fits (every mixture of the two over the reads)
	n := max
	switch s.mode {
	case 0:
		if vNondetBool() {
			n = 1
		}
	case 2:
		n = 1
	}
	copy(p, s.data[s.pos:s.pos+n])
	s.pos += n
	return n, nil
}

// vStreamAgrees drains a Reader over p word by word and compares with x (the expected output).
func vStreamAgrees(p, x []byte) {
	rd := NewReader(bufio.NewReaderSize(&vStream{data: p}, 16))
	var w [8]byte
	for k := 0; k < len(x)/8; k++ {
		err := rd.ReadWord(w[:])
		vAssert(err == nil, "C13.stream.word-available")
		if err != nil {
			return
		}
		j := vNondetInt()
		vAssume(j >= 0 && j < 8)
		vAssert(w[j] == x[8*k+j], "C13.stream.bytes")
	}
	err := rd.ReadWord(w[:])
	vAssert(err == io.EOF, "C13.stream.clean-eof-at-end")
}

// H-trunc on literal and zero runs: a stream that ends inside a run announced by a count byte is
// an error for both decoders - never completed with invented bytes, never a clean end of stream.
func vTruncLiteral() (p []byte, c int) {
	c = int(vNondetU8())
	m := vNondetInt()
	vAssume(c >= 1 && c <= 3 && m >= 0 && m < 8*c)
	p = make([]byte, 10+m)
	p[0] = 0xff
	hd := vNondetBytes(8)
	copy(p[1:9], hd)
	p[9] = byte(c)
	tail := vNondetBytes(m)
	copy(p[10:], tail)
	vRegion("literal_run_cut", true)
	return p, c
}

func VH_C13_trunc_literal() {
	p, _ := vTruncLiteral()
	vReach("entry")
	_, err := Unpack(nil, p)
	vAssert(err != nil, "C13.trunc.literal.unpack-errors")
}

func VH_C13_trunc_literal_stream() {
	p, c := vTruncLiteral()
	vReach("entry")
	rd := NewReader(bufio.NewReaderSize(&vStream{data: p}, 16))
	var w [8]byte
	var rerr error
	for k := 0; k < c+2 && rerr == nil; k++ {
		rerr = rd.ReadWord(w[:])
	}
	vAssert(rerr != nil && rerr != io.EOF, "C13.trunc.literal.stream-errors-not-clean-eof")
}

func VH_C13_trunc_zero_count_missing() {
	// a zero tag must be followed by its count byte
	p := []byte{0x00}
	_, err := Unpack(nil, p)
	vReach("entry")
	vAssert(err != nil, "C13.trunc.zero.unpack-errors")
	rd := NewReader(bufio.NewReaderSize(&vStream{data: p}, 16))
	var w [8]byte
	err1 := rd.ReadWord(w[:])
	var err2 error
	if err1 == nil {
		err2 = rd.ReadWord(w[:])
	}
	vAssert((err1 != nil && err1 != io.EOF) || (err2 != nil && err2 != io.EOF), "C13.trunc.zero.stream-errors-not-clean-eof")
}

// Reader.Read (the io.Reader face used by NewPackedDecoder): a first destination of size a and
// further ones of size b, a and b drawn from {1, 3, 8, 11}, over Pack(x) delivered by the underlying
// stream at once or byte by byte, yields exactly the bytes of x, in order, then io.EOF;
// never more bytes than asked for, never (0, nil) for a non-empty destination.
func vReadOf(x []byte) {
	p := Pack(nil, x)
	vReach("packed")
	mode := 1
	if vNondetBool() {
		mode = 2
	}
	rd := NewReader(bufio.NewReaderSize(&vStream{data: p, mode: mode}, 16))
	got := 0
	// the first destination has size a, all later ones size b
	sizes := [4]int{1, 3, 8, 11}
	a, b := sizes[vNondetU8()&3], sizes[vNondetU8()&3]
	for rounds := 0; got < len(x); rounds++ {
		if rounds > 2*len(x) {
			vAssert(false, "C13.read.progress")
			return
		}
		sz := b
		if rounds == 0 {
			sz = a
		}
		buf := make([]byte, sz)
		n, err := rd.Read(buf)
		vAssert(n >= 0 && n <= sz, "C13.read.count-in-range")
		vAssert(err == nil, "C13.read.no-error-before-end")
		vAssert(n > 0, "C13.read.progress")
		if err != nil || n <= 0 || n > sz {
			return
		}
		vAssert(got+n <= len(x), "C13.read.no-invented-bytes")
		if got+n > len(x) {
			return
		}
		j := vNondetInt()
		vAssume(j >= 0 && j < n)
		vAssert(buf[j] == x[got+j], "C13.read.bytes")
		got += n
	}
	vReach("drained")
	var one [1]byte
	n, err := rd.Read(one[:])
	vAssert(n == 0 && err == io.EOF, "C13.read.clean-eof-at-end")
}

func VH_C13_read_1() { vReadOf(vPatternWords(1)) }
func VH_C13_read_2() { vReadOf(vPatternWords(2)) }

// Pack and Unpack append to a caller-supplied buffer: the prefix is kept, and what is appended does
// not depend on what the buffer's spare capacity held before (a recycled, dirty buffer).
func vIntoDirty(x []byte) {
	k := 3
	if vNondetBool() {
		k = 0
	}
	dirty := vNondetBytesCap(k, k+40) // arbitrary bytes, also beyond len
	var pre [3]byte
	copy(pre[:], dirty)
	p := Pack(dirty, x)
	vReach("packed")
	clean := Pack(nil, x)
	vAssert(len(p) == k+len(clean), "C13.dirty.pack.length")
	if len(p) == k+len(clean) {
		for j := 0; j < k; j++ {
			vAssert(p[j] == pre[j], "C13.dirty.pack.prefix-kept")
		}
		j := vNondetInt()
		vAssume(j >= 0 && j < len(clean))
		vAssert(p[k+j] == clean[j], "C13.dirty.pack.bytes-independent-of-buffer-history")
	}
	dirty2 := vNondetBytesCap(k, k+40)
	copy(pre[:], dirty2)
	y, err := Unpack(dirty2, clean)
	vReach("unpacked")
	vAssert(err == nil, "C13.dirty.unpack.no-error")
	vAssert(len(y) == k+len(x), "C13.dirty.unpack.length")
	if err == nil && len(y) == k+len(x) {
		for j := 0; j < k; j++ {
			vAssert(y[j] == pre[j], "C13.dirty.unpack.prefix-kept")
		}
		j := vNondetInt()
		vAssume(j >= 0 && j < len(x))
		vAssert(y[k+j] == x[j], "C13.dirty.unpack.bytes-independent-of-buffer-history")
	}
}

func VH_C13_dirty_1() { vIntoDirty(vPatternWords(1)) }
func VH_C13_dirty_2() { vIntoDirty(vPatternWords(2)) }

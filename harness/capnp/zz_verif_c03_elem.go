package capnp

// C03 H-elem: typed list accessors against the spec, including the list upgrade rules.

func refElemAddr(l List, i int) int64 {
	// same expression shape as address.element so that the product term is shared
	return int64(l.off) + int64(int32(i))*int64(l.size.totalSize())
}

func VH_C03_elem_prim() {
	seg := vSeg()
	l := vListIn(seg)
	i := vNondetInt()
	vAssume(i >= 0 && i < l.Len())
	vAssume(l.flags&isBitList == 0)
	at := refElemAddr(l, i)
	comp := l.flags&isCompositeList != 0
	ds := int64(l.size.DataSize)
	vReach("entry")
	switch vNondetU8() {
	case 0:
		got := uint64(UInt8List{l}.At(i))
		if (!comp && l.size.DataSize == 1 && l.size.PointerCount == 0) || (comp && ds >= 1) {
			vAssert(got == refLoadN(seg.data, at, 1), "C03.elem.u8")
		}
	case 1:
		got := uint64(UInt16List{l}.At(i))
		if (!comp && l.size.DataSize == 2 && l.size.PointerCount == 0) || (comp && ds >= 2) {
			vAssert(got == refLoadN(seg.data, at, 2), "C03.elem.u16")
		}
	case 2:
		got := uint64(UInt32List{l}.At(i))
		if (!comp && l.size.DataSize == 4 && l.size.PointerCount == 0) || (comp && ds >= 4) {
			vAssert(got == refLoadN(seg.data, at, 4), "C03.elem.u32")
		}
	default:
		got := UInt64List{l}.At(i)
		if (!comp && l.size.DataSize == 8 && l.size.PointerCount == 0) || (comp && ds >= 8) {
			vAssert(got == refLoadN(seg.data, at, 8), "C03.elem.u64")
		}
	}
}

func VH_C03_elem_bit() {
	seg := vSeg()
	l := vListIn(seg)
	i := vNondetInt()
	vAssume(i >= 0 && i < l.Len())
	vAssume(l.flags&isBitList != 0)
	vReach("entry")
	got := BitList{l}.At(i)
	want := (seg.data[int64(l.off)+int64(i)/8]>>(uint(i)%8))&1 == 1
	vAssert(got == want, "C03.elem.bit")
}

// List.Struct(i): element i as a struct (any list kind except bit lists)
func VH_C03_elem_struct() {
	seg := vSeg()
	l := vListIn(seg)
	i := vNondetInt()
	vAssume(i >= 0 && i < l.Len())
	vAssume(l.flags&isBitList == 0)
	vReach("entry")
	s := l.Struct(i)
	vAssert(s.seg == seg, "C03.elem.struct.valid")
	vAssert(int64(s.off) == refElemAddr(l, i), "C03.elem.struct.address")
	vAssert(s.size == l.size, "C03.elem.struct.size")
}

// pointer lists, and the upgrade rule: a pointer list read from a struct list sees the FIRST
// POINTER of each element, which lives after the element's data section.
func VH_C03_elem_ptr() {
	seg := vSeg()
	l := vListIn(seg)
	vBigBudget(seg.msg)
	i := vNondetInt()
	vAssume(i >= 0 && i < l.Len())
	vAssume(l.flags&isBitList == 0)
	comp := l.flags&isCompositeList != 0
	vAssume((!comp && l.size.DataSize == 0 && l.size.PointerCount == 1) || (comp && l.size.PointerCount >= 1))
	vAssume(l.depthLimit > 0)
	slot := refElemAddr(l, i)
	if comp {
		slot += int64(l.size.DataSize)
	}
	vRegion("composite_with_data", comp && l.size.DataSize > 0)
	// Oracle: the word in the spec's slot is a capability pointer with an arbitrary index K (a
	// pointer kind that needs no further resolution); whatever lies elsewhere is unconstrained.
	w := refLoad64(seg.data, slot)
	vAssume(refKind(w) == 3 && (w>>2)&0x3fffffff == 0)
	vReach("entry")
	p, err := PointerList{l}.At(i)
	vAssert(err == nil, "C03.elem.ptr.accepted")
	if err == nil {
		vAssert(p.flags.ptrType() == interfacePtrType && uint64(p.Interface().Capability()) == refCapIndex(w), "C03.elem.ptr.first-pointer-of-element")
	}
}

// Text and Data views of a byte list
func VH_C03_text_data() {
	seg := vSeg()
	l := vListIn(seg)
	vAssume(l.flags&(isBitList|isCompositeList) == 0 && l.size.DataSize == 1 && l.size.PointerCount == 0)
	p := l.ToPtr()
	n := int64(l.length)
	off := int64(l.off)
	vReach("entry")
	d := p.Data()
	vAssert(int64(len(d)) == n, "C03.data.length")
	if n > 0 {
		j := vNondetInt()
		vAssume(j >= 0 && int64(j) < n)
		vAssert(d[j] == seg.data[off+int64(j)], "C03.data.bytes")
	}
	t := p.TextBytes()
	if n > 0 && seg.data[off+n-1] == 0 {
		vAssert(t != nil && int64(len(t)) == n-1, "C03.text.length")
		if n > 1 {
			j := vNondetInt()
			vAssume(j >= 0 && int64(j) < n-1)
			vAssert(t[j] == seg.data[off+int64(j)], "C03.text.bytes")
		}
	} else {
		vAssert(t == nil, "C03.text.not-nul-terminated-is-empty")
	}
}

// Defaults: an absent (or differently typed) pointer reads as the schema default - the root object
// of the default message - and a present one as itself; a cut default message is an error, never a
// panic; text/data defaults are returned exactly.
func VH_C03_defaults() {
	seg := vSeg()
	var p Ptr
	kind := vConc(int(vNondetU8()), 4)
	switch kind {
	case 0:
		p = vStructIn(seg).ToPtr()
	case 1:
		p = vListIn(seg).ToPtr()
	case 2:
		p = Interface{seg: seg, cap: CapabilityID(vNondetU32())}.ToPtr()
	default:
		// the null pointer
	}
	// the defaults: a struct with one data word, and a list of two 16-bit elements
	x := vNondetU64()
	dm, ds := vNewMsg()
	root, err := NewRootStruct(ds, ObjectSize{DataSize: 8})
	vAssume(err == nil)
	root.SetUint64(0, x)
	sdef, err := dm.Marshal()
	vAssume(err == nil)
	lm, lseg := vNewMsg()
	ll, err := NewUInt16List(lseg, 2)
	vAssume(err == nil)
	e0 := vNondetU16()
	ll.Set(0, e0)
	vAssume(lm.SetRoot(ll.ToPtr()) == nil)
	ldef, err := lm.Marshal()
	vAssume(err == nil)
	vReach("entry")
	s, err := p.StructDefault(sdef)
	if kind == 0 {
		vAssert(err == nil && s.seg == p.seg && s.off == p.off && s.size == p.size, "C03.default.struct.present-pointer-reads-as-itself")
	} else {
		vAssert(err == nil && s.Uint64(0) == x && s.size.DataSize == 8, "C03.default.struct.absent-pointer-reads-as-the-default-root")
	}
	l, err := p.ListDefault(ldef)
	if kind == 1 {
		vAssert(err == nil && l.seg == p.seg && l.off == p.off && l.length == int32(p.lenOrCap), "C03.default.list.present-pointer-reads-as-itself")
	} else {
		vAssert(err == nil && l.Len() == 2 && UInt16List{l}.At(0) == e0, "C03.default.list.absent-pointer-reads-as-the-default-root")
	}
	q, err := p.Default(sdef)
	if kind != 3 {
		vAssert(err == nil && q.seg == p.seg && q.off == p.off, "C03.default.ptr.present-pointer-reads-as-itself")
	} else {
		vAssert(err == nil && q.Struct().Uint64(0) == x, "C03.default.ptr.absent-pointer-reads-as-the-default-root")
	}
	// a cut default message is an error
	c := vNondetInt()
	vAssume(c >= 0 && c < len(sdef))
	if kind != 0 {
		_, cerr := p.StructDefault(sdef[:c:c])
		vAssert(cerr != nil, "C03.default.cut-default-is-an-error")
	}
	// nil default: absent pointers read as the zero value
	s0, err0 := Ptr{}.StructDefault(nil)
	l0, err1 := Ptr{}.ListDefault(nil)
	vAssert(err0 == nil && err1 == nil && s0.seg == nil && l0.seg == nil, "C03.default.nil-default-is-the-zero-value")
	// text and data
	t := p.TextDefault("dflt")
	if tb, ok := p.text(); ok {
		vAssert(len(t) == len(tb), "C03.default.text.present")
	} else {
		vAssert(t == "dflt", "C03.default.text.absent-reads-as-default")
		vAssert(string(p.TextBytesDefault("dflt")) == "dflt", "C03.default.textbytes.absent-reads-as-default")
	}
	d := p.DataDefault([]byte{7, 7})
	if !isOneByteList(p) {
		vAssert(len(d) == 2 && d[0] == 7, "C03.default.data.absent-reads-as-default")
	}
}

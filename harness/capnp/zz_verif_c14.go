package capnp

// C14: stream framing and decode bounds. C04 H-frame (Marshal/Unmarshal round trip) lives here too.

import (
	"io"

	"capnproto.org/go/capnp/v3/internal/packed"
)

// vReader is an io.Reader over symbolic bytes. chunked=false: returns as much as fits (one Read per
// ReadFull); chunked=true: each Read nondeterministically returns 1 byte or everything that fits.
type vReader struct {
	data    []byte
	pos     int
	chunked bool
	reads   int
	short   int
	split   int // > 0: the stream arrives in two pieces, the first of this many bytes
}

func (s *vReader) Read(p []byte) (int, error) {
	s.reads++
	if s.pos >= len(s.data) {
		return 0, io.EOF
	}
	if len(p) == 0 {
		return 0, nil
	}
	n := len(s.data) - s.pos
	if len(p) < n {
		n = len(p)
	}
	if s.split > 0 && s.pos < s.split && s.pos+n > s.split {
		n = s.split - s.pos
	}
	if s.chunked && s.short < 3 && n > 1 {
		// at most three short (1-byte) reads per stream, at arbitrary positions
		if vNondetBool() {
			n = 1
			s.short++
		}
	}
	copy(p, s.data[s.pos:s.pos+n])
	s.pos += n
	return n, nil
}

// vConcrete forks over the values 0..n-1 of x so that each path continues with a constant.
func vConcrete(x, n int) int {
	for i := 0; i < n; i++ {
		if x == i {
			return i
		}
	}
	vAssume(false)
	return 0
}

func refHeaderSize(maxSeg uint64) uint64 { // bytes: (count-1) word + one u32 per segment, padded to 8
	return (4*(maxSeg+2) + 7) / 8 * 8
}

func VH_C14_header() {
	ms := vNondetU32()
	vReach("entry")
	vAssert(streamHeaderSize(SegmentID(ms)) == refHeaderSize(uint64(ms)), "C14.hdr.size")
	// segmentSize: words -> bytes, rejecting sizes beyond the segment limit
	b := vNondetBytes(16)
	h := streamHeader{b}
	i := SegmentID(vNondetU8() % 3)
	words := refLoadN(b, 4+4*int64(i), 4)
	sz, err := h.segmentSize(i)
	if 8*words <= 1<<32-8 && words < 1<<31 {
		vAssert(err == nil && uint64(sz) == 8*words, "C14.hdr.segment-size")
	} else {
		vAssert(err != nil, "C14.hdr.segment-size-rejected")
	}
}

// Decoding never allocates more than MaxMessageSize (plus the 8-byte word buffer that is part of the
// decoder) and rejects more than 512 segments, for every header.
func VH_C14_decode_bound() {
	n := vNondetInt()
	vAssume(n >= 0 && n <= 1<<33)
	src := &vReader{data: vNondetBytes(n)}
	M := vNondetU64()
	vAssume(M <= 1<<40)
	d := NewDecoder(src)
	d.MaxMessageSize = M
	before := vAllocSum()
	msg, err := d.Decode()
	used := vAllocSum() - before
	vReach("returned")
	limit := M
	if M == 0 {
		limit = 64 << 20
	}
	if n >= 8 {
		ms := refLoadN(src.data, 0, 4)
		vTag("maxseg", ms)
		if ms > 512 {
			vAssert(err != nil, "C14.decode.segment-count-limit")
			vAssert(used == 0, "C14.decode.reject-before-allocating")
		}
	}
	// the [][]byte table of demuxArena costs 24 bytes per segment on top of the message bytes
	vAssert(used <= limit+24*513+4096, "C14.decode.allocation-bounded-by-max-message-size") // 4096: slack for the native replay, which measures every allocation
	if err == nil {
		vReach("accepted")
		vAssert(msg != nil, "C14.decode.msg")
		vAssert(uint64(src.pos) <= limit, "C14.decode.consumed-at-most-max-message-size")
	}
}

// Unmarshal allocates memory proportional to the input only
func VH_C14_unmarshal_bound() { vUnmarshalBound(2) }

// (a full-width variant, vUnmarshalBound(1 << 32), did not finish within 50 minutes and is not registered)

func vUnmarshalBound(maxSegs uint64) {
	n := vNondetInt()
	vAssume(n >= 0 && n <= 1<<33)
	data := vNondetBytes(n)
	if n >= 4 {
		// quick tier: at most three segments go through demuxArena's loop; the rejection paths
		// (header longer than the input, sizes beyond the input) are covered for every count
		ms := refLoadN(data, 0, 4)
		vAssume(ms <= maxSegs || 4*(ms+2) > uint64(n))
	}
	before := vAllocSum()
	msg, err := Unmarshal(data)
	used := vAllocSum() - before
	vReach("returned")
	vAssert(used <= 8*uint64(n)+4096, "C14.unmarshal.allocation-proportional-to-input") // 24-byte slice header per 4 header bytes; 4096: replay slack
	if err == nil {
		vReach("accepted")
		vAssert(msg != nil, "C14.unmarshal.msg")
	}
}

// Frame round trip and exactness on small streams with arbitrary chunking: a message of one or two
// segments with symbolic lengths and contents, marshalled, then decoded from a stream that is cut
// at an arbitrary point.
func vFrameMsg(k int) (*Message, [][]byte) {
	bufs := make([][]byte, k)
	for i := 0; i < k; i++ {
		w := vConcrete(int(vNondetU8()%3), 3) // 0..2 words, one path per length
		bufs[i] = vNondetBytes(8 * w)
	}
	return &Message{Arena: MultiSegment(bufs)}, bufs
}

func vMarshalRoundtrip(k int) {
	m, bufs := vFrameMsg(k)
	b, err := m.Marshal()
	vReach("marshalled")
	vAssert(err == nil, "C04.frame.marshal-ok")
	if err != nil {
		return
	}
	// C05: the segment table matches the segments
	vAssert(refLoadN(b, 0, 4) == uint64(k-1), "C05.table.segment-count")
	total := 0
	for i := 0; i < k; i++ {
		vAssert(refLoadN(b, 4+4*int64(i), 4) == uint64(len(bufs[i])/8), "C05.table.segment-words")
		total += len(bufs[i])
	}
	hs := int(refHeaderSize(uint64(k - 1)))
	vAssert(len(b) == hs+total, "C05.table.total-length")
	m2, err := Unmarshal(b)
	if total == 0 && false {
		return
	}
	vAssert(err == nil, "C04.frame.unmarshal-ok")
	if err != nil {
		return
	}
	vAssert(m2.NumSegments() == int64(k), "C04.frame.segment-count")
	for i := 0; i < k; i++ {
		s, e2 := m2.Segment(SegmentID(i))
		vAssert(e2 == nil && len(s.data) == len(bufs[i]), "C04.frame.segment-length")
		if e2 == nil && len(bufs[i]) > 0 && len(s.data) == len(bufs[i]) {
			j := vNondetInt()
			vAssume(j >= 0 && j < len(bufs[i]))
			vAssert(s.data[j] == bufs[i][j], "C04.frame.segment-bytes")
		}
	}
}

func VH_C14_marshal_roundtrip_1() { vMarshalRoundtrip(1) }
func VH_C14_marshal_roundtrip_2() { vMarshalRoundtrip(2) }
func VH_C14_marshal_roundtrip_3() { vMarshalRoundtrip(3) }

// Stream: two frames back to back, decoded with arbitrary chunking, with and without buffer reuse;
// then the same stream cut at an arbitrary byte: end-of-stream is reported as io.EOF only at a frame
// boundary.
func vStreamDecode(reuse bool, cut bool) {
	m1, b1 := vFrameMsg(1)
	m2, b2 := vFrameMsg(2)
	f1, e1 := m1.Marshal()
	f2, e2 := m2.Marshal()
	vAssume(e1 == nil && e2 == nil)
	stream := append(append([]byte{}, f1...), f2...)
	c := len(stream)
	if cut {
		c = vNondetInt()
		vAssume(c >= 0 && c < len(stream))
		c = vConcrete(c, len(stream))
	}
	d := NewDecoder(&vReader{data: stream[:c], chunked: true})
	if reuse {
		d.ReuseBuffer()
	}
	vReach("entry")
	g1, err := d.Decode()
	if c < len(f1) {
		if c == 0 {
			vAssert(err == io.EOF, "C14.stream.eof-at-frame-boundary")
		} else {
			vAssert(err != nil && err != io.EOF, "C14.stream.cut-inside-frame-is-an-error")
		}
		return
	}
	vAssert(err == nil, "C14.stream.first-frame-decoded")
	if err != nil {
		return
	}
	s, se := g1.Segment(0)
	vAssert(se == nil && len(s.data) == len(b1[0]), "C14.stream.first-frame-length")
	if se == nil && len(b1[0]) > 0 && len(s.data) == len(b1[0]) {
		j := vNondetInt()
		vAssume(j >= 0 && j < len(b1[0]))
		vAssert(s.data[j] == b1[0][j], "C14.stream.first-frame-bytes")
	}
	g2, err := d.Decode()
	if c < len(stream) {
		if c == len(f1) {
			vAssert(err == io.EOF, "C14.stream.eof-at-frame-boundary")
		} else {
			vAssert(err != nil && err != io.EOF, "C14.stream.cut-inside-frame-is-an-error")
		}
		return
	}
	vAssert(err == nil, "C14.stream.second-frame-decoded")
	if err != nil {
		return
	}
	vAssert(g2.NumSegments() == 2, "C14.stream.second-frame-segments")
	for i := 0; i < 2; i++ {
		s2, se2 := g2.Segment(SegmentID(i))
		vAssert(se2 == nil && len(s2.data) == len(b2[i]), "C14.stream.second-frame-length")
		if se2 == nil && len(b2[i]) > 0 && len(s2.data) == len(b2[i]) {
			j := vNondetInt()
			vAssume(j >= 0 && j < len(b2[i]))
			vAssert(s2.data[j] == b2[i][j], "C14.stream.second-frame-bytes-no-stale-data")
		}
	}
	_, err = d.Decode()
	vAssert(err == io.EOF, "C14.stream.eof-after-last-frame")
}

func VH_C14_stream()           { vStreamDecode(false, false) }
func VH_C14_stream_reuse()     { vStreamDecode(true, false) }
func VH_C14_stream_cut()       { vStreamDecode(false, true) }
func VH_C14_stream_cut_reuse() { vStreamDecode(true, true) }

// Buffer reuse after a MULTI-segment frame whose later segments were looked at: the next frames
// (one or two segments) come back with their own bytes in every segment, attached to their own
// message - nothing of the earlier frame shows through.
func VH_C14_stream_reuse_multi() {
	m1, b1 := vFrameMsg(2)
	k2 := 1 + vConcrete(int(vNondetU8()%2), 2)
	m2, b2 := vFrameMsg(k2)
	f1, e1 := m1.Marshal()
	f2, e2 := m2.Marshal()
	vAssume(e1 == nil && e2 == nil)
	stream := append(append([]byte{}, f1...), f2...)
	d := NewDecoder(&vReader{data: stream})
	if vNondetBool() {
		d.ReuseBuffer()
	}
	vReach("entry")
	g1, err := d.Decode()
	vAssert(err == nil && g1.NumSegments() == 2, "C14.reuse.first-frame-decoded")
	if err != nil {
		return
	}
	for i := 0; i < 2; i++ {
		s, se := g1.Segment(SegmentID(i)) // look at every segment of the first frame
		vAssert(se == nil && len(s.data) == len(b1[i]), "C14.reuse.first-frame-length")
	}
	g2, err := d.Decode()
	vAssert(err == nil, "C14.reuse.second-frame-decoded")
	if err != nil {
		return
	}
	vAssert(int(g2.NumSegments()) == k2, "C14.reuse.second-frame-segments")
	for i := 0; i < k2; i++ {
		s2, se2 := g2.Segment(SegmentID(i))
		vAssert(se2 == nil && len(s2.data) == len(b2[i]), "C14.reuse.second-frame-length")
		if se2 != nil {
			continue
		}
		vAssert(s2.Message() == g2, "C14.reuse.segment-belongs-to-its-message")
		if len(b2[i]) > 0 && len(s2.data) == len(b2[i]) {
			j := vNondetInt()
			vAssume(j >= 0 && j < len(b2[i]))
			vAssert(s2.data[j] == b2[i][j], "C14.reuse.second-frame-bytes-no-stale-data")
		}
	}
	_, err = d.Decode()
	vAssert(err == io.EOF, "C14.reuse.eof-after-last-frame")
}

// Writing into a message that was read with Unmarshal / Decode never disturbs the bytes of another
// segment: an object allocated through the read-back message lands outside every existing segment's
// bytes (the segments of one frame are adjacent in one buffer).
func VH_C04_unmarshal_then_write() {
	m1, b1 := vFrameMsg(2)
	f1, e1 := m1.Marshal()
	vAssume(e1 == nil)
	var g *Message
	var err error
	if vNondetBool() {
		g, err = Unmarshal(f1)
	} else {
		g, err = NewDecoder(&vReader{data: f1}).Decode()
	}
	vAssume(err == nil)
	s0, err := g.Segment(0)
	vAssume(err == nil)
	vReach("read-back")
	ns, addr, err := alloc(s0, 8)
	if err != nil {
		return
	}
	vReach("allocated")
	// fill the new object
	for j := 0; j < 8; j++ {
		ns.data[int(addr)+j] = 0xEE
	}
	for i := 0; i < 2; i++ {
		si, err := g.Segment(SegmentID(i))
		vAssert(err == nil, "C04.readback.segment-still-there")
		if err != nil {
			continue
		}
		if len(b1[i]) > 0 && len(si.data) >= len(b1[i]) {
			j := vNondetInt()
			vAssume(j >= 0 && j < len(b1[i]))
			vAssert(si.data[j] == b1[i][j], "C04.readback.write-does-not-disturb-other-objects")
		}
	}
}

// MarshalPacked / UnmarshalPacked: the packed frame of a message of one or two segments unpacks to
// the same segments (bytes either all non-zero or all zero per segment, so that the packer's
// structure is fixed and the byte values stay symbolic)
func VH_C14_marshal_packed_roundtrip() {
	k := 1 + vConcrete(int(vNondetU8()%2), 2)
	bufs := make([][]byte, k)
	for i := 0; i < k; i++ {
		w := vConcrete(int(vNondetU8()%3), 3)
		bufs[i] = vNondetBytes(8 * w)
		zero := vNondetBool()
		for j := range bufs[i] {
			if zero {
				vAssume(bufs[i][j] == 0)
				bufs[i][j] = 0
			} else {
				vAssume(bufs[i][j] != 0)
			}
		}
	}
	m := &Message{Arena: MultiSegment(bufs)}
	p, err := m.MarshalPacked()
	vReach("packed")
	vAssert(err == nil, "C04.packedframe.marshal-ok")
	if err != nil {
		return
	}
	g, err := UnmarshalPacked(p)
	vAssert(err == nil, "C04.packedframe.unmarshal-ok")
	if err != nil {
		return
	}
	vAssert(int(g.NumSegments()) == k, "C04.packedframe.segment-count")
	for i := 0; i < k; i++ {
		s, err := g.Segment(SegmentID(i))
		vAssert(err == nil && len(s.data) == len(bufs[i]), "C04.packedframe.segment-length")
		if err == nil && len(bufs[i]) > 0 && len(s.data) == len(bufs[i]) {
			j := vNondetInt()
			vAssume(j >= 0 && j < len(bufs[i]))
			vAssert(s.data[j] == bufs[i][j], "C04.packedframe.segment-bytes")
		}
	}
}

// Packed Encoder -> packed Decoder: one or two frames whose payload words follow the packer's
// structure masks (all non-zero / all zero / seven leading non-zero bytes), delivered in two pieces
// split at ANY byte: the decoded segments are the written ones and the stream ends cleanly.
func VH_C14_stream_packed() {
	nf := 1 + vConcrete(int(vNondetU8()%2), 2)
	var bufs [2][]byte
	var w vBufW
	enc := NewPackedEncoder(&w)
	for f := 0; f < nf; f++ {
		bufs[f] = vNondetBytes(8)
		mask := byte(0xff)
		switch vNondetU8() % 3 {
		case 1:
			mask = 0x00
		case 2:
			mask = 0x7f
		}
		for j := 0; j < 8; j++ {
			if mask&(1<<uint(j)) != 0 {
				vAssume(bufs[f][j] != 0)
			} else {
				vAssume(bufs[f][j] == 0)
				bufs[f][j] = 0
			}
		}
		m := &Message{Arena: SingleSegment(bufs[f])}
		eerr := enc.Encode(m)
		vAssert(eerr == nil, "C04.packedstream.encode-ok")
		if eerr != nil {
			return
		}
	}
	stream := w.b
	k := vNondetInt()
	vAssume(k >= 0 && k <= len(stream))
	k = vConcrete(k, len(stream)+1)
	vReach("encoded")
	d := NewPackedDecoder(&vReader{data: stream, split: k})
	for f := 0; f < nf; f++ {
		g, err := d.Decode()
		vAssert(err == nil, "C04.packedstream.frame-decoded")
		if err != nil {
			return
		}
		s, err := g.Segment(0)
		vAssert(err == nil && g.NumSegments() == 1 && len(s.data) == 8, "C04.packedstream.segment-shape")
		if err != nil || len(s.data) != 8 {
			return
		}
		j := vNondetInt()
		vAssume(j >= 0 && j < 8)
		vAssert(s.data[j] == bufs[f][j], "C04.packedstream.segment-bytes")
	}
	_, err := d.Decode()
	vAssert(err == io.EOF, "C04.packedstream.clean-end-of-stream")
}

type vBufW struct{ b []byte }

func (w *vBufW) Write(p []byte) (int, error) {
	w.b = append(w.b, p...)
	return len(p), nil
}

// UnmarshalPacked on a packed frame cut at ANY byte: it reports an error whenever the one-shot
// unpacker does (a packed message completed with invented zero bytes is never accepted), and a
// complete frame gives the segments back.
func VH_C14_unmarshal_packed_cut() {
	w := vNondetBytes(8)
	mask := byte(0xff)
	switch vNondetU8() % 4 {
	case 1:
		mask = 0x00
	case 2:
		mask = 0x81
	case 3:
		mask = 0x7f
	}
	for j := 0; j < 8; j++ {
		if mask&(1<<uint(j)) != 0 {
			vAssume(w[j] != 0)
		} else {
			vAssume(w[j] == 0)
			w[j] = 0
		}
	}
	m := &Message{Arena: SingleSegment(w)}
	p, err := m.MarshalPacked()
	vAssume(err == nil)
	c := vNondetInt()
	vAssume(c >= 0 && c <= len(p))
	c = vConcrete(c, len(p)+1)
	vReach("cut")
	g, err := UnmarshalPacked(p[:c:c])
	_, uerr := packedUnpackRef(p[:c])
	if uerr {
		vAssert(err != nil, "C13.unmarshalpacked.truncated-stream-is-an-error")
	}
	if c == len(p) {
		vAssert(err == nil, "C13.unmarshalpacked.complete-frame-accepted")
		if err == nil {
			s, serr := g.Segment(0)
			vAssert(serr == nil && len(s.data) == 8, "C13.unmarshalpacked.segment")
			if serr == nil && len(s.data) == 8 {
				j := vNondetInt()
				vAssume(j >= 0 && j < 8)
				vAssert(s.data[j] == w[j], "C13.unmarshalpacked.bytes")
			}
		}
	}
}

// packedUnpackRef: does the one-shot unpacker reject the stream?
func packedUnpackRef(p []byte) ([]byte, bool) {
	b, err := packed.Unpack(nil, p)
	return b, err != nil
}

// The packed stream cut at ANY byte: frames that are complete decode, and the next Decode reports
// io.EOF only when the cut is exactly at a frame boundary - a cut inside a frame (also between a
// zero tag and its count byte) is an error, never a clean end of stream.
func VH_C14_stream_packed_cut() {
	var bufs [2][]byte
	var ends [2]int
	var w vBufW
	enc := NewPackedEncoder(&w)
	for f := 0; f < 2; f++ {
		bufs[f] = vNondetBytes(8)
		mask := byte(0xff)
		switch vNondetU8() % 3 {
		case 1:
			mask = 0x00
		case 2:
			mask = 0x7f
		}
		for j := 0; j < 8; j++ {
			if mask&(1<<uint(j)) != 0 {
				vAssume(bufs[f][j] != 0)
			} else {
				vAssume(bufs[f][j] == 0)
				bufs[f][j] = 0
			}
		}
		m := &Message{Arena: SingleSegment(bufs[f])}
		vAssume(enc.Encode(m) == nil)
		ends[f] = len(w.b)
	}
	stream := w.b
	c := vNondetInt()
	vAssume(c >= 0 && c <= len(stream))
	c = vConcrete(c, len(stream)+1)
	vReach("cut")
	d := NewPackedDecoder(&vReader{data: stream[:c:c]})
	if vNondetBool() {
		d.ReuseBuffer()
	}
	for f := 0; f < 2; f++ {
		g, err := d.Decode()
		if c >= ends[f] {
			vAssert(err == nil, "C14.packedcut.complete-frame-decoded")
			if err != nil {
				return
			}
			continue
		}
		start := 0
		if f == 1 {
			start = ends[0]
		}
		if c == start {
			vAssert(err == io.EOF, "C14.packedcut.eof-at-frame-boundary")
			return
		}
		if err == nil {
			// The only cut a packed reader cannot notice at once: the count byte after the zero tag of
			// the frame's LAST word is missing. The word itself is complete (zeros), so the frame is
			// delivered - with the right bytes - and the cut is reported by the next read.
			vAssert(c == ends[f]-1, "C14.packedcut.only-a-missing-final-count-byte-is-reported-late")
			s, serr := g.Segment(0)
			vAssert(serr == nil && len(s.data) == 8, "C14.packedcut.late.segment")
			if serr == nil && len(s.data) == 8 {
				j := vNondetInt()
				vAssume(j >= 0 && j < 8)
				vAssert(s.data[j] == bufs[f][j], "C14.packedcut.late.no-invented-bytes")
			}
			_, err2 := d.Decode()
			vAssert(err2 != nil && err2 != io.EOF, "C14.packedcut.cut-is-an-error-not-a-clean-end")
			return
		}
		vAssert(err != io.EOF, "C14.packedcut.cut-inside-frame-is-an-error")
		return
	}
	_, err := d.Decode()
	vAssert(err == io.EOF, "C14.packedcut.eof-after-last-frame")
}

package capnp

// C02: traversal accounting and depth limits.

// refObjectBytes is the spec size of the object a pointer hands out: struct = data + 8*pointers;
// list = length * stride (bit lists ceil(length/8) bytes; zero-sized elements count as one word).
func refReadBytes(p Ptr) uint64 {
	switch p.flags.ptrType() {
	case structPtrType:
		return uint64(p.size.DataSize) + 8*uint64(p.size.PointerCount)
	case listPtrType:
		l := p.List()
		n := uint64(uint32(l.length))
		if l.flags&isBitList != 0 {
			// a bit list hands out length zero-sized... bits: at least ceil(n/8) bytes; the library's
			// rule ("a zero-sized element counts as one word") charges 8 per element, which is more.
			return (n + 7) / 8
		}
		// totalSize() is pinned to DataSize + 8*PointerCount by VH_C03_sizes; same expression shape
		// as the library keeps the product term shared.
		if l.size.totalSize() == 0 {
			return 8 * n
		}
		return uint64(int64(l.size.totalSize()) * int64(l.length))
	}
	return 0
}

// H-charge: a successful readPtr charges at least the spec size against the remaining budget,
// never lets the budget wrap, and a refusal because of the budget zeroes it.
func VH_C02_charge() {
	n := vNondetInt()
	vAssume(n >= 8 && n <= vMaxSeg && n%8 == 0)
	msg, seg := vMsg1(n)
	R := vNondetU64()
	msg.ResetReadLimit(R)
	paddr := address(vNondetU32())
	vAssume(int64(paddr)%8 == 0 && int64(paddr)+8 <= int64(n))
	d := uint(vNondetU64())
	p, err := seg.readPtr(paddr, d)
	after := msg.rlimit
	vReach("returned")
	vAssert(after <= R, "C02.charge.monotone")
	if err == nil && p.seg != nil {
		vReach("ok")
		need := refReadBytes(p)
		vAssert(R >= need, "C02.charge.within-budget")
		vAssert(R-after >= need, "C02.charge.at-least-spec-size")
	}
	if err != nil {
		vAssert(after == R || after == 0, "C02.charge.refusal-zeroes-or-untouched")
	}
}

// default budget: TraverseLimit == 0 means 64 MiB; otherwise the configured value; installed once.
func VH_C02_default_limit() {
	n := vNondetInt()
	vAssume(n >= 8 && n <= vMaxSeg && n%8 == 0)
	data := vNondetBytes(n)
	T := vNondetU64()
	msg := &Message{Arena: SingleSegment(data), TraverseLimit: T}
	sz := Size(vNondetU32())
	ok := msg.canRead(sz)
	want := T
	if T == 0 {
		want = 64 << 20
	}
	vReach("entry")
	vAssert(ok == (uint64(sz) <= want), "C02.limit.grant-iff-fits")
	if ok {
		vAssert(msg.rlimit == want-uint64(sz), "C02.limit.remaining")
	} else {
		vAssert(msg.rlimit == 0, "C02.limit.exhausted")
	}
	// a second read is charged against what is left, not against a re-initialised budget
	before := msg.rlimit
	sz2 := Size(vNondetU32())
	ok2 := msg.canRead(sz2)
	vAssert(ok2 == (uint64(sz2) <= before), "C02.limit.second-grant")
	vAssert(msg.rlimit <= before, "C02.limit.second-monotone")
	// Unread gives back exactly what it is told, ResetReadLimit installs exactly the new budget
	if ok2 {
		left := msg.rlimit
		msg.Unread(sz2)
		vAssert(msg.rlimit == left+uint64(sz2) && msg.rlimit == before, "C02.limit.unread-restores-the-charge")
	}
	nl := vNondetU64()
	msg.ResetReadLimit(nl)
	vAssert(msg.rlimit == nl, "C02.limit.reset-installs-the-budget")
	sz3 := Size(vNondetU32())
	vAssert(msg.canRead(sz3) == (uint64(sz3) <= nl), "C02.limit.reset-budget-is-not-reinitialised")
}

// H-depth: every dereference strictly decreases the depth budget (as an unsigned integer, no
// wrap) and nothing is handed out from a parent whose budget is zero; conversions never increase it.
func VH_C02_depth_readptr() {
	n := vNondetInt()
	vAssume(n >= 8 && n <= vMaxSeg && n%8 == 0)
	_, seg := vMsg1(n)
	paddr := address(vNondetU32())
	vAssume(int64(paddr)%8 == 0 && int64(paddr)+8 <= int64(n))
	d := uint(vNondetU64())
	p, err := seg.readPtr(paddr, d)
	vReach("returned")
	if err == nil && p.seg != nil && p.flags.ptrType() != interfacePtrType {
		vReach("ok")
		vAssert(d > 0, "C02.depth.readptr.zero-budget-hands-out-nothing")
		vAssert(p.depthLimit < d, "C02.depth.readptr.strictly-decreases")
	}
}

func VH_C02_depth_struct_ptr() {
	seg := vSeg()
	s := vStructIn(seg)
	p, err := s.Ptr(vNondetU16())
	vReach("returned")
	if err == nil && p.seg != nil && p.flags.ptrType() != interfacePtrType {
		vReach("ok")
		vAssert(s.depthLimit > 0, "C02.depth.structptr.zero-budget")
		vAssert(p.depthLimit < s.depthLimit, "C02.depth.structptr.strictly-decreases")
	}
}

func VH_C02_depth_list_struct() {
	seg := vSeg()
	l := vListIn(seg)
	i := vNondetInt()
	vAssume(i >= 0 && i < l.Len())
	s := l.Struct(i)
	vReach("returned")
	if s.seg != nil {
		vReach("ok")
		// a struct-list element is a projection, not a pointer dereference: the property only
		// requires that the budget never grows (no wrap); the dereferences below it decrease it.
		vRegion("list_budget_zero", l.depthLimit == 0)
		vAssert(s.depthLimit <= l.depthLimit, "C02.depth.liststruct.no-increase")
		// The property counts struct-list elements among the levels ("any mix of struct fields,
		// struct-list elements and pointer-list elements"): while budget is left, stepping into an
		// element uses one level, so a chain through nested struct lists is cut at D levels.
		if l.depthLimit > 0 {
			vAssert(s.depthLimit < l.depthLimit, "C02.depth.liststruct.element-is-a-level")
		}
	}
}

func VH_C02_depth_list_ptr() {
	seg := vSeg()
	l := vListIn(seg)
	i := vNondetInt()
	vAssume(i >= 0 && i < l.Len())
	p, err := PointerList{l}.At(i)
	vReach("returned")
	if err == nil && p.seg != nil && p.flags.ptrType() != interfacePtrType {
		vReach("ok")
		vAssert(l.depthLimit > 0, "C02.depth.listptr.zero-budget")
		vAssert(p.depthLimit < l.depthLimit, "C02.depth.listptr.strictly-decreases")
	}
}

func VH_C02_depth_conversions() {
	seg := vSeg()
	s := vStructIn(seg)
	l := vListIn(seg)
	vReach("entry")
	vAssert(s.ToPtr().depthLimit <= s.depthLimit, "C02.depth.conv.struct-toptr")
	vAssert(s.ToPtr().Struct().depthLimit <= s.depthLimit, "C02.depth.conv.ptr-struct")
	vAssert(l.ToPtr().depthLimit <= l.depthLimit, "C02.depth.conv.list-toptr")
	vAssert(l.ToPtr().List().depthLimit <= l.depthLimit, "C02.depth.conv.ptr-list")
}

// the root is read with the configured depth limit (default 64)
func VH_C02_depth_root() {
	n := vNondetInt()
	vAssume(n >= 8 && n <= vMaxSeg && n%8 == 0)
	msg, _ := vMsg1(n)
	D := msg.DepthLimit
	p, err := msg.Root()
	vReach("returned")
	if err == nil && p.seg != nil && p.flags.ptrType() != interfacePtrType {
		vReach("ok")
		want := D
		if D == 0 {
			want = 64
		}
		vAssert(p.depthLimit < want, "C02.depth.root.below-configured-limit")
	}
}

// copyStruct dereferences the source's pointers with the source's depth budget
func VH_C02_depth_copystruct() {
	seg := vSeg()
	src := vStructIn(seg)
	vAssume(src.size.PointerCount >= 1)
	// one level: the readPtr inside copyStruct is what matters; observe it through a failure
	// when the source budget is zero and the pointer is non-null
	vAssume(src.depthLimit == 0)
	raw := seg.readRawPointer(src.pointerAddress(0))
	vAssume(raw != 0 && raw.pointerType() == structPointer)
	dmsg, dseg, err := NewMessage(SingleSegment(nil))
	vAssume(err == nil)
	_ = dmsg
	dst, err := NewStruct(dseg, ObjectSize{PointerCount: 1})
	vAssume(err == nil)
	err = copyStruct(dst, src)
	vReach("returned")
	vAssert(err != nil, "C02.depth.copystruct.zero-budget-refused")
}

// H-cas: two goroutines charge the same message concurrently; every interleaving of their atomic
// operations is explored. The sizes granted never exceed the budget and the budget never wraps.
func VH_C02_concurrent_canread() {
	data := vNondetBytes(8)
	msg := &Message{Arena: SingleSegment(data)}
	R := vNondetU64()
	msg.ResetReadLimit(R)
	s1, s2 := Size(vNondetU32()), Size(vNondetU32())
	var g1, g2 bool
	vPar(func() { g1 = msg.canRead(s1) }, func() { g2 = msg.canRead(s2) })
	vReach("joined")
	var granted uint64
	if g1 {
		granted += uint64(s1)
	}
	if g2 {
		granted += uint64(s2)
	}
	vAssert(granted <= R, "C02.cas.granted-within-budget")
	vAssert(msg.rlimit <= R-granted, "C02.cas.budget-never-exceeds-what-is-left")
	if g1 && g2 {
		vAssert(msg.rlimit == R-granted, "C02.cas.both-charged")
	}
}

package capnp

// C01 Layer A, H-establish: readPtr on arbitrary segment bytes performs only in-bounds reads
// (every slice/index inside is an engine obligation) and returns an error or a value that
// satisfies its representation invariant.

func VH_C01_establish_1seg() {
	n := vNondetInt()
	vAssume(n >= 8 && n <= 1<<32-8 && n%8 == 0)
	_, seg := vMsg1(n)
	paddr := address(vNondetU32())
	vAssume(int64(paddr)%8 == 0 && int64(paddr)+8 <= int64(n))
	d := uint(vNondetU64())
	p, err := seg.readPtr(paddr, d)
	vReach("returned")
	if err == nil {
		vReach("ok")
		vTag("ptrtype", uint64(p.flags.ptrType()))
		vTag("length", uint64(uint32(p.lenOrCap)))
		vRegion("neglen_zero_size_composite", p.flags.ptrType() == listPtrType && p.List().flags&isCompositeList != 0 && p.size.DataSize == 0 && p.size.PointerCount == 0 && int32(p.lenOrCap) < 0)
		vAssert(invPtr(p), "C01.establish.inv")
		if p.seg != nil {
			vAssert(p.seg == seg, "C01.establish.seg")
		}
	}
}

func VH_C01_establish_2seg() {
	_, segs := vMsgN(2, 1<<32-8)
	which := vNondetBool()
	seg := segs[0]
	if which {
		seg = segs[1]
	}
	paddr := address(vNondetU32())
	vAssume(int64(paddr)%8 == 0 && int64(paddr)+8 <= segLen(seg))
	d := uint(vNondetU64())
	p, err := seg.readPtr(paddr, d)
	vReach("returned")
	if err == nil {
		vReach("ok")
		vRegion("neglen_zero_size_composite", p.flags.ptrType() == listPtrType && p.List().flags&isCompositeList != 0 && p.size.DataSize == 0 && p.size.PointerCount == 0 && int32(p.lenOrCap) < 0)
		vAssert(invPtr(p), "C01.establish.inv")
		if p.seg != nil {
			vAssert(p.seg == segs[0] || p.seg == segs[1], "C01.establish.seg")
		}
	}
}

func VH_C01_root() {
	n := vNondetInt()
	vAssume(n >= 0 && n <= 1<<32-8 && n%8 == 0)
	msg, _ := vMsg1(n)
	p, err := msg.Root()
	vReach("returned")
	if err == nil {
		vReach("ok")
		vRegion("neglen_zero_size_composite", p.flags.ptrType() == listPtrType && p.List().flags&isCompositeList != 0 && p.size.DataSize == 0 && p.size.PointerCount == 0 && int32(p.lenOrCap) < 0)
		vAssert(invPtr(p), "C01.root.inv")
	}
}

// The same on a segment whose slice has SPARE CAPACITY (a prefix of a pooled buffer): the bytes
// beyond len are not part of the message. What readPtr accepts lies within len, and what the
// accessors hand out is taken from within len - nothing is read from the spare capacity.
func VH_C01_establish_spare_capacity() {
	n := vNondetInt()
	c := vNondetInt()
	vAssume(n >= 8 && n <= c && c <= 1<<32-8 && n%8 == 0)
	data := vNondetBytesCap(n, c)
	msg := &Message{Arena: SingleSegment(data), TraverseLimit: vNondetU64(), DepthLimit: uint(vNondetU64())}
	seg, err := msg.Segment(0)
	vAssume(err == nil)
	paddr := address(vNondetU32())
	vAssume(int64(paddr)%8 == 0 && int64(paddr)+8 <= int64(n))
	d := uint(vNondetU64())
	p, err := seg.readPtr(paddr, d)
	vReach("returned")
	if err != nil {
		return
	}
	vReach("ok")
	vAssert(invPtr(p), "C01.spare.accepted-object-lies-within-len")
	if !invPtr(p) {
		return
	}
	switch p.flags.ptrType() {
	case structPtrType:
		s := p.Struct()
		off := DataOffset(vNondetU32())
		vAssume(uint64(off) < 1<<20)
		v := s.Uint8(off)
		if int64(off) < int64(s.size.DataSize) {
			vAssert(v == seg.data[int64(s.off)+int64(off)], "C01.spare.field-is-a-byte-of-the-segment")
		} else {
			vAssert(v == 0, "C01.spare.field-beyond-the-data-section-is-default")
		}
		i := uint16(vNondetU16())
		has := s.HasPtr(i)
		if int(i) >= int(s.size.PointerCount) {
			vAssert(!has, "C01.spare.pointer-beyond-the-section-is-absent")
		}
	case listPtrType:
		if b := p.Data(); b != nil {
			vAssert(vWithin(b, seg.data), "C01.spare.data-within-len")
		}
		if b := p.TextBytes(); b != nil {
			vAssert(vWithin(b, seg.data), "C01.spare.text-within-len")
		}
	}
}

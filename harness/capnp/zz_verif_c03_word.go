package capnp

// C03 H-word: every 64-bit pointer word decodes as the encoding spec says.
// Reference formulas written from encoding.html in plain integer arithmetic.

func refKind(w uint64) uint64  { return w & 3 }
func refOffsetWords(w uint64) int64 {
	// bits 2..31, signed 30-bit
	v := int64((w >> 2) & 0x3fffffff)
	if v >= 1<<29 {
		v -= 1 << 30
	}
	return v
}
func refDataWords(w uint64) uint64 { return (w >> 32) & 0xffff }
func refPtrWords(w uint64) uint64  { return (w >> 48) & 0xffff }
func refElemCode(w uint64) uint64  { return (w >> 32) & 7 }
func refElemCount(w uint64) uint64 { return (w >> 35) & 0x1fffffff }
func refFarIsDouble(w uint64) bool { return (w>>2)&1 == 1 }
func refFarOffsetWords(w uint64) uint64 { return (w >> 3) & 0x1fffffff }
func refFarSegment(w uint64) uint64     { return w >> 32 }
func refCapIndex(w uint64) uint64       { return w >> 32 }

func VH_C03_word() {
	w := vNondetU64()
	p := rawPointer(w)
	vReach("entry")
	// kind
	switch refKind(w) {
	case 0:
		vAssert(p.pointerType() == structPointer, "C03.word.kind.struct")
	case 1:
		vAssert(p.pointerType() == listPointer, "C03.word.kind.list")
	case 2:
		if refFarIsDouble(w) {
			vAssert(p.pointerType() == doubleFarPointer, "C03.word.kind.doublefar")
		} else {
			vAssert(p.pointerType() == farPointer, "C03.word.kind.far")
		}
	case 3:
		vAssert(p.pointerType() == otherPointer, "C03.word.kind.other")
	}
	vAssert(int64(p.offset()) == refOffsetWords(w), "C03.word.offset")
	sz := p.structSize()
	vAssert(uint64(sz.DataSize) == 8*refDataWords(w), "C03.word.datasize")
	vAssert(uint64(sz.PointerCount) == refPtrWords(w), "C03.word.ptrcount")
	vAssert(uint64(p.listType()) == refElemCode(w), "C03.word.listtype")
	vAssert(uint64(uint32(p.numListElements())) == refElemCount(w), "C03.word.listcount")
	vAssert(p.numListElements() >= 0, "C03.word.listcount.nonneg")
	vAssert(uint64(p.farAddress()) == 8*refFarOffsetWords(w), "C03.word.faraddr")
	vAssert(uint64(p.farSegment()) == refFarSegment(w), "C03.word.farseg")
	vAssert(uint64(p.capabilityIndex()) == refCapIndex(w), "C03.word.capindex")
	vAssert(uint64(p.otherPointerType()) == (w>>2)&0x3fffffff, "C03.word.othertype")
	if refElemCode(w) != 7 {
		es := p.elementSize()
		var wantData, wantPtrs uint64
		switch refElemCode(w) {
		case 2:
			wantData = 1
		case 3:
			wantData = 2
		case 4:
			wantData = 4
		case 5:
			wantData = 8
		case 6:
			wantPtrs = 1
		}
		vAssert(uint64(es.DataSize) == wantData && uint64(es.PointerCount) == wantPtrs, "C03.word.elemsize")
	}
	// total list size in bytes (word-count for composite lists, +1 tag word)
	tsz, ok := p.totalListSize()
	n := refElemCount(w)
	switch refElemCode(w) {
	case 0:
		vAssert(ok && tsz == 0, "C03.word.listsize.void")
	case 1:
		vAssert(ok && uint64(tsz) == (n+7)/8, "C03.word.listsize.bit")
	case 2:
		vAssert(ok && uint64(tsz) == n, "C03.word.listsize.b1")
	case 3:
		vAssert(ok && uint64(tsz) == 2*n, "C03.word.listsize.b2")
	case 4:
		vAssert(ok && uint64(tsz) == 4*n, "C03.word.listsize.b4")
	case 5:
		vAssert(ok && uint64(tsz) == 8*n, "C03.word.listsize.b8")
	case 6:
		vAssert(ok && uint64(tsz) == 8*n, "C03.word.listsize.ptr")
	case 7:
		if 8*(n+1) <= uint64(maxSegmentSize) {
			vAssert(ok && uint64(tsz) == 8*(n+1), "C03.word.listsize.composite")
		} else {
			vAssert(!ok, "C03.word.listsize.composite.overflow")
		}
	}
}

package capnp

// C10: capability lifetime (capability.go), sequential histories over small sets of handles with a
// counting ClientHook. Shutdown runs exactly once, only when the last strong reference is gone (or
// the promise resolved), never while a reference remains, with no mutex held; references of a
// promised client transfer to its resolution; calls through released / null clients yield errors.

import "context"

type vHook struct {
	shutdowns, sends, recvs int
	locksAtShutdown         int
}

func (h *vHook) Send(ctx context.Context, s Send) (*Answer, ReleaseFunc) {
	h.sends++
	return ErrorAnswer(s.Method, newError("vHook")), func() {}
}
func (h *vHook) Recv(ctx context.Context, r Recv) PipelineCaller { h.recvs++; return nil }
func (h *vHook) Brand() Brand                                    { return Brand{} }
func (h *vHook) Shutdown() {
	h.shutdowns++
	h.locksAtShutdown += vLocksHeld()
}

func VH_C10_refcount() {
	h := &vHook{}
	c := NewClient(h)
	n := vConc(int(vNondetU8()), 3)
	refs := []*Client{c}
	for i := 0; i < n; i++ {
		refs = append(refs, c.AddRef())
	}
	vReach("built")
	// release in an arbitrary rotation; the last one triggers the shutdown
	start := vConc(int(vNondetU8()), n+1)
	for k := 0; k <= n; k++ {
		vAssert(h.shutdowns == 0, "C10.refcount.no-shutdown-while-a-reference-remains")
		r := refs[(start+k)%(n+1)]
		r.Release()
		vAssert(vLocksHeld() == 0, "C10.refcount.release.no-lock-held")
		if vNondetBool() {
			r.Release() // releasing the same handle again is harmless
		}
	}
	vAssert(h.shutdowns == 1, "C10.refcount.shutdown-exactly-once-after-last-release")
	vAssert(h.locksAtShutdown == 0, "C10.refcount.shutdown-called-without-locks")
	// calls through a released client are errors, not calls
	ans, rel := c.SendCall(context.Background(), Send{})
	vAssert(ans != nil && rel != nil && h.sends == 0, "C10.released.call-is-an-error-answer")
	if ans != nil {
		_, err := ans.Struct()
		vAssert(err != nil, "C10.released.error")
	}
	vAssert(!c.IsValid(), "C10.released.not-valid")
	vAssert(vLocksHeld() == 0, "C10.released.no-lock-held")
}

func VH_C10_null_client() {
	var c *Client
	ans, rel := c.SendCall(context.Background(), Send{})
	vReach("called")
	vAssert(ans != nil && rel != nil, "C10.null.call-is-an-error-answer")
	if ans != nil {
		_, err := ans.Struct()
		vAssert(err != nil, "C10.null.error")
	}
	c.Release()
	vAssert(c.AddRef() == nil && !c.IsValid() && c.WeakRef() == nil, "C10.null.operations-are-noops")
	vAssert(NewClient(nil) == nil, "C10.null.newclient-nil-hook")
}

// references of a promised client transfer to the capability it resolves to
func VH_C10_promise_transfer() {
	ph, th := &vHook{}, &vHook{}
	c, cp := NewPromisedClient(ph)
	extra := vConc(int(vNondetU8()), 2)
	refs := []*Client{c}
	for i := 0; i < extra; i++ {
		refs = append(refs, c.AddRef())
	}
	target := NewClient(th)
	cp.Fulfill(target)
	vReach("fulfilled")
	vAssert(vLocksHeld() == 0, "C10.promise.fulfill.no-lock-held")
	vAssert(ph.shutdowns == 1, "C10.promise.promise-hook-shut-down-once-on-resolution")
	vAssert(th.shutdowns == 0, "C10.promise.target-alive")
	// a reference added after resolution through a handle that has not been used since counts on
	// the resolved capability
	lateFirst := vConc(int(vNondetU8()), 2) == 1
	if lateFirst {
		refs = append(refs, refs[len(refs)-1].AddRef())
	}
	// calls through the promised client now reach the target
	c.SendCall(context.Background(), Send{})
	vAssert(th.sends == 1 && ph.sends == 0, "C10.promise.calls-reach-resolution")
	if !lateFirst {
		refs = append(refs, refs[len(refs)-1].AddRef())
	}
	// the target stays alive until its own reference AND every transferred one is released
	target.Release()
	vAssert(th.shutdowns == 0, "C10.promise.transferred-references-keep-target-alive")
	for i, r := range refs {
		vAssert(th.shutdowns == 0, "C10.promise.no-shutdown-while-a-reference-remains")
		r.Release()
		_ = i
	}
	vAssert(th.shutdowns == 1 && ph.shutdowns == 1, "C10.promise.shutdown-exactly-once")
	vAssert(th.locksAtShutdown == 0 && ph.locksAtShutdown == 0, "C10.promise.shutdown-called-without-locks")
	again := vPanics(func() { cp.Fulfill(nil) })
	vAssert(again, "C10.promise.second-fulfill-panics")
	vAssert(vLocksHeld() == 0, "C10.promise.after.no-lock-held")
}

// promise resolved to null: references vanish, calls are errors
func VH_C10_promise_null() {
	ph := &vHook{}
	c, cp := NewPromisedClient(ph)
	cp.Fulfill(nil)
	vReach("fulfilled")
	vAssert(ph.shutdowns == 1 && vLocksHeld() == 0, "C10.promise-null.shutdown-once")
	ans, _ := c.SendCall(context.Background(), Send{})
	_, err := ans.Struct()
	vAssert(err != nil && ph.sends == 0, "C10.promise-null.call-is-an-error")
	c.Release()
	vAssert(ph.shutdowns == 1 && vLocksHeld() == 0, "C10.promise-null.release")
}

// weak references: upgrade while alive, never resurrect
func VH_C10_weak() {
	h := &vHook{}
	c := NewClient(h)
	w := c.WeakRef()
	c2, ok := w.AddRef()
	vReach("upgraded")
	vAssert(ok && c2 != nil, "C10.weak.upgrade-while-alive")
	c.Release()
	vAssert(h.shutdowns == 0, "C10.weak.upgraded-reference-keeps-alive")
	c2.Release()
	vAssert(h.shutdowns == 1, "C10.weak.shutdown-after-last-strong-reference")
	c3, ok := w.AddRef()
	vAssert(!ok && c3 == nil, "C10.weak.no-resurrection")
	vAssert(h.shutdowns == 1 && vLocksHeld() == 0, "C10.weak.after")
}

// ---- two goroutines (vPar: every interleaving of their synchronisation operations) ----

// vCallHook upgrades a weak reference to itself while a call is in progress
type vCallHook struct {
	vHook
	w          *WeakClient
	inCall     bool
	upgraded   *Client
	upOK       bool
	duringCall int
}

func (h *vCallHook) Send(ctx context.Context, s Send) (*Answer, ReleaseFunc) {
	h.inCall = true
	h.sends++
	h.upgraded, h.upOK = h.w.AddRef()
	h.inCall = false
	return ErrorAnswer(s.Method, newError("vCallHook")), func() {}
}

func (h *vCallHook) Shutdown() {
	h.shutdowns++
	if h.inCall {
		h.duringCall++
	}
	h.locksAtShutdown += vLocksHeld()
}

// a call races with the Release of the last strong reference
func VH_C10_par_call_vs_release() {
	vNoBlock(true) // the two goroutines below are the only ones: a wait nobody can end is a hang
	h := &vCallHook{}
	c := NewClient(h)
	h.w = c.WeakRef()
	vPar(func() {
		c.SendCall(context.Background(), Send{})
	}, func() {
		c.Release()
	})
	vReach("joined")
	vAssert(h.duringCall == 0, "C10.par.no-shutdown-while-a-call-is-in-progress")
	if h.upOK && h.upgraded != nil {
		// the upgrade happened while a strong reference still existed: it keeps the capability alive
		vAssert(h.shutdowns == 0, "C10.par.upgraded-reference-keeps-alive")
		h.upgraded.Release()
	}
	vAssert(h.shutdowns == 1, "C10.par.shutdown-exactly-once")
	vAssert(vLocksHeld() == 0, "C10.par.no-lock-held")
}

// two goroutines release the two references of one capability
func VH_C10_par_release_release() {
	vNoBlock(true) // the two goroutines below are the only ones: a wait nobody can end is a hang
	h := &vHook{}
	c := NewClient(h)
	c2 := c.AddRef()
	vPar(func() { c.Release() }, func() { c2.Release() })
	vReach("joined")
	vAssert(h.shutdowns == 1, "C10.par.two-releases-one-shutdown")
	vAssert(vLocksHeld() == 0 && h.locksAtShutdown == 0, "C10.par.two-releases.no-lock-held")
}

// AddRef races with Release of another reference
func VH_C10_par_addref_release() {
	vNoBlock(true) // the two goroutines below are the only ones: a wait nobody can end is a hang
	h := &vHook{}
	c := NewClient(h)
	c2 := c.AddRef()
	var c3 *Client
	vPar(func() { c3 = c.AddRef() }, func() { c2.Release() })
	vReach("joined")
	vAssert(h.shutdowns == 0, "C10.par.addref-keeps-alive")
	c.Release()
	c3.Release()
	vAssert(h.shutdowns == 1, "C10.par.addref.shutdown-after-all-released")
}

// vGateHook: a capability whose Send stays inside the hook until the gate opens
type vGateHook struct {
	vHook
	gate    chan struct{}
	entered int
}

func (h *vGateHook) Send(ctx context.Context, s Send) (*Answer, ReleaseFunc) {
	h.entered++
	<-h.gate
	h.sends++
	return ErrorAnswer(s.Method, newError("vGateHook")), func() {}
}

// Resolution while a call is still inside the promise's hook: Fulfill waits for that call (no
// shutdown of the promise hook under a running call), completes once the call has returned, later
// calls go to the resolution, and both hooks are shut down exactly once when everything is released.
// Scripted with cooperative goroutines: call enters the hook, Fulfill starts and waits, the call
// is let go.
func VH_C10_fulfill_during_call() {
	ph := &vGateHook{gate: make(chan struct{})}
	th := &vHook{}
	c, cp := NewPromisedClient(ph)
	target := NewClient(th)
	callDone, fulfilled := false, false
	go func() {
		_, rel := c.SendCall(context.Background(), Send{})
		rel()
		callDone = true
	}()
	vSettle()
	vReach("call-inside-hook")
	vAssert(ph.entered == 1 && !callDone, "C10.during.call-is-inside-the-hook")
	go func() {
		cp.Fulfill(target)
		fulfilled = true
	}()
	vSettle()
	vAssert(ph.shutdowns == 0, "C10.during.no-shutdown-while-a-call-is-in-progress")
	close(ph.gate)
	vSettle()
	vReach("released")
	vAssert(callDone, "C10.during.call-completes")
	vAssert(fulfilled, "C10.during.fulfill-completes-once-the-call-has-returned")
	if !fulfilled {
		return
	}
	vAssert(ph.shutdowns == 1, "C10.during.promise-hook-shut-down-exactly-once")
	c.SendCall(context.Background(), Send{})
	vAssert(th.sends == 1, "C10.during.later-calls-reach-the-resolution")
	target.Release()
	vAssert(th.shutdowns == 0, "C10.during.transferred-reference-keeps-target-alive")
	c.Release()
	vAssert(th.shutdowns == 1 && ph.shutdowns == 1, "C10.during.shutdown-exactly-once")
	vAssert(vLocksHeld() == 0, "C10.during.no-lock-held")
}

// A promise fulfilled with a client that is itself a still unresolved promise: the outer handle
// follows the chain - not null, calls reach the inner promise and, once that resolves, the final
// capability; references transfer down the chain, so the final capability stays alive until the
// outer handle is released too and is shut down exactly once.
func VH_C10_promise_chain() {
	ph1, ph2, th := &vHook{}, &vHook{}, &vHook{}
	c1, p1 := NewPromisedClient(ph1)
	c2, p2 := NewPromisedClient(ph2)
	extra := vConc(int(vNondetU8()), 2) == 1
	var c1b *Client
	if extra {
		c1b = c1.AddRef()
	}
	target := NewClient(th)
	if vConc(int(vNondetU8()), 2) == 1 {
		// the inner promise is resolved first and not used before the outer one is fulfilled with it
		p2.Fulfill(target)
		p1.Fulfill(c2)
		vReach("inner-first")
	} else {
		p1.Fulfill(c2) // c2 is not resolved yet
		vReach("outer-fulfilled")
		vAssert(vLocksHeld() == 0, "C10.chain.fulfill.no-lock-held")
		vAssert(c1.IsValid() && c1.State().IsPromise, "C10.chain.outer-handle-follows-to-the-inner-promise")
		c1.SendCall(context.Background(), Send{})
		vAssert(ph2.sends == 1 && ph1.sends == 0, "C10.chain.calls-reach-the-inner-promise")
		p2.Fulfill(target)
	}
	vReach("inner-fulfilled")
	c1.SendCall(context.Background(), Send{})
	vAssert(th.sends == 1, "C10.chain.calls-reach-the-final-capability")
	vAssert(!c1.State().IsPromise && c1.IsSame(target), "C10.chain.outer-handle-resolved-to-the-final-capability")
	target.Release()
	c2.Release()
	vAssert(th.shutdowns == 0, "C10.chain.transferred-references-keep-the-capability-alive")
	if extra {
		c1b.Release()
		vAssert(th.shutdowns == 0, "C10.chain.no-shutdown-while-a-reference-remains")
	}
	c1.Release()
	vReach("released")
	vAssert(th.shutdowns == 1 && ph1.shutdowns == 1 && ph2.shutdowns == 1, "C10.chain.every-hook-shut-down-exactly-once")
	vAssert(vLocksHeld() == 0, "C10.chain.no-lock-held")
}

type vGateRecvHook struct {
	vHook
	gate       chan struct{}
	inRecv     bool
	shutInRecv int
}

func (h *vGateRecvHook) Recv(ctx context.Context, r Recv) PipelineCaller {
	h.inRecv = true
	<-h.gate
	h.inRecv = false
	h.recvs++
	return nil
}

func (h *vGateRecvHook) Shutdown() {
	if h.inRecv {
		h.shutInRecv++
	}
	h.shutdowns++
}

// A RECEIVED call (RecvCall) holds the capability like a sent one: releasing the last reference
// while the hook's Recv is still running waits for it - Shutdown never runs under a call in progress.
func VH_C10_release_during_recvcall() {
	h := &vGateRecvHook{gate: make(chan struct{})}
	c := NewClient(h)
	callDone, released := false, false
	go func() {
		c.RecvCall(context.Background(), Recv{Returner: vReturner{}, ReleaseArgs: func() {}})
		callDone = true
	}()
	vSettle()
	vReach("call-inside-hook")
	vAssert(h.inRecv && !callDone, "C10.recv.call-is-inside-the-hook")
	go func() {
		c.Release()
		released = true
	}()
	vSettle()
	vAssert(h.shutdowns == 0, "C10.recv.no-shutdown-while-a-call-is-in-progress")
	close(h.gate)
	vSettle()
	vReach("done")
	vAssert(callDone && released, "C10.recv.call-and-release-complete")
	vAssert(h.shutdowns == 1 && h.shutInRecv == 0, "C10.recv.shutdown-exactly-once-after-the-call")
	vAssert(vLocksHeld() == 0, "C10.recv.no-lock-held")
}

// Observers (String, State, IsValid, IsSame, WeakRef) on resolved, unresolved and released clients
// leave every lock free: the next operation does not block.
func VH_C10_observers_leave_no_lock() {
	ph := &vHook{}
	c, cp := NewPromisedClient(ph)
	plain := NewClient(&vHook{})
	stage := vConc(int(vNondetU8()), 3)
	switch stage {
	case 1:
		cp.Fulfill(plain)
	case 2:
		cp.Fulfill(nil)
	}
	vNoBlock(true)
	_ = c.String()
	vAssert(vLocksHeld() == 0, "C10.observe.string.no-lock-held")
	_ = c.State()
	_ = c.IsValid()
	_ = c.IsSame(plain)
	w := c.WeakRef()
	vAssert(vLocksHeld() == 0, "C10.observe.no-lock-held")
	c2 := c.AddRef()
	vReach("after-observers")
	vAssert(vLocksHeld() == 0, "C10.observe.addref-after-observers")
	if w != nil {
		if s, ok := w.AddRef(); ok {
			s.Release()
		}
	}
	c2.Release()
	c.Release()
	_ = (*Client)(nil).String()
	_ = plain.String()
	plain.Release()
	_ = plain.String()
	vAssert(vLocksHeld() == 0, "C10.observe.after-release.no-lock-held")
}

// A promise chain that ends in null (outer promise fulfilled with an unresolved inner promise, inner
// promise then resolved to null), the outer handle not touched in between: the outer handle is the
// null client - calls give error answers and never reach a hook that has been shut down, AddRef gives
// a null client, every hook is shut down exactly once, nothing panics or stays locked.
func VH_C10_promise_chain_to_null() {
	ph1, ph2 := &vHook{}, &vHook{}
	c1, p1 := NewPromisedClient(ph1)
	c2, p2 := NewPromisedClient(ph2)
	p1.Fulfill(c2)
	p2.Fulfill(nil)
	vReach("resolved-to-null")
	vAssert(ph1.shutdowns == 1 && ph2.shutdowns == 1, "C10.nullchain.promise-hooks-shut-down-once")
	s1, s2 := ph1.sends, ph2.sends
	ans, rel := c1.SendCall(context.Background(), Send{})
	_, err := ans.Struct()
	rel()
	vAssert(err != nil, "C10.nullchain.call-on-null-client-is-an-error-answer")
	vAssert(ph1.sends == s1 && ph2.sends == s2, "C10.nullchain.no-call-reaches-a-hook-after-its-shutdown")
	c1.RecvCall(context.Background(), Recv{Returner: vReturner{}, ReleaseArgs: func() {}})
	vAssert(ph1.recvs == 0 && ph2.recvs == 0, "C10.nullchain.no-received-call-reaches-a-hook-after-its-shutdown")
	a := c1.AddRef()
	vAssert(!a.IsValid() && !c1.IsValid(), "C10.nullchain.handles-are-null")
	a.Release()
	c1.Release()
	c2.Release()
	vAssert(ph1.shutdowns == 1 && ph2.shutdowns == 1, "C10.nullchain.no-second-shutdown")
	vAssert(vLocksHeld() == 0, "C10.nullchain.no-lock-held")
}

type vGateBrandHook struct {
	vHook
	gate        chan struct{}
	inBrand     bool
	shutInBrand int
}

func (h *vGateBrandHook) Brand() Brand {
	h.inBrand = true
	<-h.gate
	h.inBrand = false
	return Brand{}
}

func (h *vGateBrandHook) Shutdown() {
	if h.inBrand {
		h.shutInBrand++
	}
	h.shutdowns++
}

// State() uses the hook (Brand) like a call does: the last Release while it is inside the hook
// waits - the hook is never used across or after its Shutdown.
func VH_C10_release_during_state() {
	h := &vGateBrandHook{gate: make(chan struct{})}
	c := NewClient(h)
	stateDone, released := false, false
	go func() {
		_ = c.State()
		stateDone = true
	}()
	vSettle()
	vAssert(h.inBrand && !stateDone, "C10.state.observer-is-inside-the-hook")
	go func() {
		c.Release()
		released = true
	}()
	vSettle()
	vAssert(h.shutdowns == 0, "C10.state.no-shutdown-while-the-hook-is-in-use")
	close(h.gate)
	vSettle()
	vAssert(stateDone && released, "C10.state.both-complete")
	vAssert(h.shutdowns == 1 && h.shutInBrand == 0, "C10.state.shutdown-exactly-once-afterwards")
}

package capnp

// C03 sizes: the size helpers every bound check is built from equal their plain-integer definitions
// (full width). The invariants and reference models may therefore use them.

func VH_C03_sizes() {
	sz := ObjectSize{DataSize: Size(vNondetU32()), PointerCount: vNondetU16()}
	vAssume(uint64(sz.DataSize) <= 8*0xffff)
	vReach("entry")
	vAssert(uint64(sz.pointerSize()) == 8*uint64(sz.PointerCount), "C03.sizes.pointerSize")
	vAssert(uint64(sz.totalSize()) == uint64(sz.DataSize)+8*uint64(sz.PointerCount), "C03.sizes.totalSize")
	vAssert(sz.isValid(), "C03.sizes.isValid")
	vAssert(sz.isZero() == (sz.DataSize == 0 && sz.PointerCount == 0), "C03.sizes.isZero")
	if sz.DataSize%8 == 0 {
		vAssert(uint64(uint32(sz.dataWordCount())) == uint64(sz.DataSize)/8, "C03.sizes.dataWordCount")
		vAssert(uint64(uint32(sz.totalWordCount())) == uint64(sz.DataSize)/8+uint64(sz.PointerCount), "C03.sizes.totalWordCount")
	}
	x := Size(vNondetU32())
	vAssume(uint64(x) <= 1<<32-8)
	p := x.padToWord()
	vAssert(uint64(p) >= uint64(x) && uint64(p) < uint64(x)+8 && p%8 == 0, "C03.sizes.padToWord")
	// address arithmetic
	a := address(vNondetU32())
	s2 := Size(vNondetU32())
	r, ok := a.addSize(s2)
	sum := uint64(a) + uint64(s2)
	vAssert(ok == (sum <= 1<<32-8), "C03.sizes.addSize.ok")
	if ok {
		vAssert(uint64(r) == sum, "C03.sizes.addSize.value")
	}
	n := int32(vNondetU32())
	t, ok2 := Size(8).times(n)
	if n >= 0 && 8*uint64(uint32(n)) <= 1<<32-8 {
		vAssert(ok2 && uint64(t) == 8*uint64(uint32(n)), "C03.sizes.times8")
	} else {
		vAssert(!ok2, "C03.sizes.times8.reject")
	}
	bn := int32(vNondetU32())
	vAssume(bn >= 0 && bn < 1<<29)
	vAssert(uint64(bitListSize(bn)) == (uint64(uint32(bn))+7)/8, "C03.sizes.bitListSize")
}

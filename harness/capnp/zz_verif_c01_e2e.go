package capnp

// C01 Layer C: end to end on small, fully symbolic framed messages through the public API:
// Unmarshal, Root, then every recursive consumer once. Nothing may panic or read out of bounds.
// Depth and traversal limits are set small so that cyclic pointer graphs stay cheap; the limits
// themselves are C02.

func vE2E(maxBytes int, consumer int) {
	n := vNondetInt()
	vAssume(n >= 0 && n <= maxBytes)
	b := vNondetBytes(n)
	msg, err := Unmarshal(b)
	vReach("unmarshalled")
	if err != nil {
		return
	}
	msg.DepthLimit = 3
	msg.TraverseLimit = 256
	root, err := msg.Root()
	if err != nil {
		return
	}
	vReach("root")
	switch consumer {
	case 0:
		// accessors over whatever the root is
		s := root.Struct()
		_ = s.Uint64(0)
		_ = s.Bit(3)
		p, _ := s.Ptr(0)
		_ = p.Text()
		_ = p.Data()
		l := root.List()
		if l.Len() > 0 {
			_ = l.Struct(0)
			_, _ = PointerList{l}.At(0)
			_ = UInt8List{l}.At(0)
			_ = BitList{l}.At(0)
		}
		_ = root.Interface().Client()
	case 1:
		_, _ = Equal(root, root)
	case 2:
		_, _ = Canonicalize(root.Struct())
	default:
		dst, _, err := NewMessage(SingleSegment(nil))
		if err == nil {
			_ = dst.SetRoot(root)
		}
	}
	vReach("consumed")
}

func VH_C01_e2e_access_24() { vE2E(24, 0) }
func VH_C01_e2e_equal_24()  { vE2E(24, 1) }
func VH_C01_e2e_canon_24()  { vE2E(24, 2) }
func VH_C01_e2e_copy_24()   { vE2E(24, 3) }
func VH_C01_e2e_access_32() { vE2E(32, 0) }

// (equal_32 did not finish within 50 minutes and is not registered)
func VH_C01_e2e_canon_32() { vE2E(32, 2) }
func VH_C01_e2e_copy_32()  { vE2E(32, 3) }

package capnp

// C11: promise pipelining (answer.go), sequential step lemmas from real states built by the real
// constructors. Every operation must return with every mutex released, deliver a pipelined call
// exactly once to the right place, and resolve at most once.

import "context"

type vCaller struct {
	sends, recvs int
}

func (c *vCaller) PipelineSend(ctx context.Context, transform []PipelineOp, s Send) (*Answer, ReleaseFunc) {
	c.sends++
	vAssert(vLocksHeld() == 0, "C11.caller-invoked-without-promise-lock")
	return ErrorAnswer(s.Method, newError("vCaller")), func() {}
}

func (c *vCaller) PipelineRecv(ctx context.Context, transform []PipelineOp, r Recv) PipelineCaller {
	c.recvs++
	vAssert(vLocksHeld() == 0, "C11.caller-invoked-without-promise-lock")
	return nil
}

func vIsClosed(ch <-chan struct{}) bool {
	select {
	case <-ch:
		return true
	default:
		return false
	}
}

// asking for the same pipelined client repeatedly is harmless
func VH_C11_client_twice() {
	p := NewPromise(Method{}, &vCaller{})
	f := p.Answer().Future()
	if vNondetBool() {
		f = f.Field(0, nil)
	}
	c1 := f.Client()
	vReach("first")
	vAssert(vLocksHeld() == 0, "C11.client.first.no-lock-held")
	c2 := f.Client()
	vReach("second")
	vRegion("cached_pipelined_client", true)
	vAssert(vLocksHeld() == 0, "C11.client.second.no-lock-held")
	vAssert(c1 == c2, "C11.client.same-client-for-same-path")
	// and the promise is still usable afterwards
	p.Fulfill(Ptr{})
	vAssert(vLocksHeld() == 0, "C11.client.fulfill-after.no-lock-held")
}

// resolve at most once; every waiter released
func VH_C11_resolve_once() {
	p := NewPromise(Method{}, &vCaller{})
	done := p.Answer().Done()
	vAssert(!vIsClosed(done), "C11.resolve.not-resolved-initially")
	if vNondetBool() {
		p.Fulfill(Ptr{})
	} else {
		p.Reject(newError("rejected"))
	}
	vReach("resolved")
	vAssert(vLocksHeld() == 0, "C11.resolve.no-lock-held")
	vAssert(vIsClosed(done), "C11.resolve.waiters-released")
	again := vPanics(func() {
		if vNondetBool() {
			p.Fulfill(Ptr{})
		} else {
			p.Reject(newError("again"))
		}
	})
	vAssert(again, "C11.resolve.second-resolution-panics")
	vAssert(vLocksHeld() == 0, "C11.resolve.second.no-lock-held")
	_, err := p.Answer().Struct()
	vAssert(vLocksHeld() == 0, "C11.resolve.struct.no-lock-held")
	_ = err
}

// a pipelined call made before resolution goes to the pipeline caller exactly once
func VH_C11_pipeline_before_resolution() {
	vc := &vCaller{}
	p := NewPromise(Method{}, vc)
	ctx := context.Background()
	if vNondetBool() {
		ans, rel := p.Answer().PipelineSend(ctx, nil, Send{})
		vAssert(ans != nil && rel != nil, "C11.pipeline.send.answer")
		vAssert(vc.sends == 1 && vc.recvs == 0, "C11.pipeline.send.delivered-exactly-once-to-caller")
	} else {
		p.Answer().PipelineRecv(ctx, nil, Recv{Returner: vReturner{}, ReleaseArgs: func() {}})
		vAssert(vc.recvs == 1 && vc.sends == 0, "C11.pipeline.recv.delivered-exactly-once-to-caller")
	}
	vReach("delivered")
	vAssert(vLocksHeld() == 0, "C11.pipeline.no-lock-held")
	vAssert(p.ongoingCalls == 0, "C11.pipeline.ongoing-calls-balanced")
	p.Fulfill(Ptr{})
	vAssert(vLocksHeld() == 0 && vIsClosed(p.Answer().Done()), "C11.pipeline.fulfill-after-call")
}

type vReturner struct{}

func (vReturner) AllocResults(sz ObjectSize) (Struct, error) { return Struct{}, newError("no results") }
func (vReturner) Return(e error)                             {}

// after resolution the call is not given to the pipeline caller any more
func VH_C11_pipeline_after_resolution() {
	vc := &vCaller{}
	p := NewPromise(Method{}, vc)
	rejected := vNondetBool()
	if rejected {
		p.Reject(newError("rejected"))
	} else {
		p.Fulfill(Ptr{})
	}
	ans, rel := p.Answer().PipelineSend(context.Background(), nil, Send{})
	vReach("sent")
	vAssert(vc.sends == 0 && vc.recvs == 0, "C11.pipeline.after.not-delivered-to-caller")
	vAssert(vLocksHeld() == 0, "C11.pipeline.after.no-lock-held")
	vAssert(ans != nil && rel != nil, "C11.pipeline.after.answer")
	if ans != nil {
		vAssert(vIsClosed(ans.Done()), "C11.pipeline.after.fails-or-resolves-immediately")
		_, err := ans.Struct()
		vAssert(err != nil, "C11.pipeline.after.error-answer")
	}
}

// pipelined clients handed out earlier are resolved and released by ReleaseClients, idempotently
func VH_C11_release_clients() {
	p := NewPromise(Method{}, &vCaller{})
	c := p.Answer().Client()
	vAssert(c != nil, "C11.release.client")
	if vNondetBool() {
		p.Fulfill(Ptr{})
	} else {
		p.Reject(newError("rejected"))
	}
	vAssert(vLocksHeld() == 0, "C11.release.fulfill.no-lock-held")
	p.ReleaseClients()
	vReach("released")
	vAssert(vLocksHeld() == 0, "C11.release.no-lock-held")
	vAssert(p.clients == nil && p.releasedClients, "C11.release.clients-dropped")
	p.ReleaseClients()
	vAssert(vLocksHeld() == 0, "C11.release.idempotent")
}

// Join: the joined promise resolves with its parent
func VH_C11_join() {
	p1 := NewPromise(Method{}, &vCaller{})
	p2 := NewPromise(Method{}, &vCaller{})
	early := vNondetBool()
	if early {
		p1.Fulfill(Ptr{})
	}
	p2.Join(p1.Answer())
	vReach("joined")
	vAssert(vLocksHeld() == 0, "C11.join.no-lock-held")
	if !early {
		vAssert(!vIsClosed(p2.Answer().Done()), "C11.join.unresolved-parent-keeps-child-pending")
		p1.Fulfill(Ptr{})
		vAssert(vLocksHeld() == 0, "C11.join.parent-fulfill.no-lock-held")
	}
	vAssert(vIsClosed(p2.Answer().Done()), "C11.join.child-resolved-with-parent")
	again := vPanics(func() { p2.Fulfill(Ptr{}) })
	vAssert(again, "C11.join.resolution-after-join-panics")
	vAssert(vLocksHeld() == 0, "C11.join.after.no-lock-held")
}

// Join of a promise that already handed out a pipelined client: the client moves to the parent and
// is resolved with it
func VH_C11_join_with_clients() {
	p1 := NewPromise(Method{}, &vCaller{})
	p2 := NewPromise(Method{}, &vCaller{})
	c := p2.Answer().Client()
	vAssert(c != nil && vLocksHeld() == 0, "C11.joinclients.client")
	if vNondetBool() {
		_ = p1.Answer().Client() // the parent may or may not have clients of its own
	}
	vRegion("join_into_parent_without_clients", true)
	p2.Join(p1.Answer())
	vReach("joined")
	vAssert(vLocksHeld() == 0, "C11.joinclients.no-lock-held")
	p1.Fulfill(Ptr{})
	vAssert(vLocksHeld() == 0, "C11.joinclients.fulfill.no-lock-held")
	vAssert(vIsClosed(p2.Answer().Done()), "C11.joinclients.child-resolved")
	// the pipelined client handed out by the child now refers to the resolution (null -> error)
	ans, _ := c.SendCall(context.Background(), Send{})
	_, err := ans.Struct()
	vAssert(err != nil, "C11.joinclients.client-resolved")
	p1.ReleaseClients()
	p2.ReleaseClients()
	vAssert(vLocksHeld() == 0, "C11.joinclients.release.no-lock-held")
}

// pipelined clients for pointer fields with large indexes (two-byte field numbers) end up
// referring to the capability in exactly that field of the result
func VH_C11_pipelined_client_field_index() {
	p := NewPromise(Method{}, &vCaller{})
	field := uint16(256 + vConc(int(vNondetU8()), 3)) // 256, 257, 258
	c := p.Answer().Field(field, nil).Client()
	vAssert(c != nil && vLocksHeld() == 0, "C11.field.client")
	// result: struct with 260 pointers; the requested field holds capability 1, the field with the
	// same low byte holds capability 0
	msg, seg := vNewMsg()
	res, err := NewRootStruct(seg, ObjectSize{PointerCount: 260})
	vAssume(err == nil)
	h0, h1 := &vHook{}, &vHook{}
	msg.CapTable = []*Client{NewClient(h0), NewClient(h1)}
	vAssume(res.SetPtr(field, NewInterface(seg, 1).ToPtr()) == nil)
	vAssume(res.SetPtr(field&0xff, NewInterface(seg, 0).ToPtr()) == nil)
	p.Fulfill(res.ToPtr())
	vReach("fulfilled")
	vAssert(vLocksHeld() == 0, "C11.field.fulfill.no-lock-held")
	c.SendCall(context.Background(), Send{})
	vAssert(h1.sends == 1 && h0.sends == 0, "C11.field.client-refers-to-the-requested-field")
}

// ---- two goroutines (vPar: every interleaving of their synchronisation operations) ----

// a pipelined call races with the resolution: it is delivered exactly once - to the pipeline
// caller if it got there first, otherwise it is resolved against the result
func VH_C11_par_fulfill_vs_pipeline() {
	vNoBlock(true) // the two goroutines below are the only ones: a wait nobody can end is a hang
	vc := &vCaller{}
	p := NewPromise(Method{}, vc)
	var ans *Answer
	vPar(func() {
		p.Fulfill(Ptr{})
	}, func() {
		ans, _ = p.Answer().PipelineSend(context.Background(), nil, Send{})
	})
	vReach("joined")
	vAssert(vLocksHeld() == 0, "C11.par.pipeline.no-lock-held")
	vAssert(vc.sends <= 1, "C11.par.pipeline.delivered-at-most-once-to-caller")
	vAssert(ans != nil, "C11.par.pipeline.answered")
	vAssert(vIsClosed(p.Answer().Done()), "C11.par.pipeline.resolved")
	vAssert(p.ongoingCalls == 0, "C11.par.pipeline.ongoing-calls-balanced")
}

// asking for the pipelined client races with the resolution
func VH_C11_par_fulfill_vs_client() {
	vNoBlock(true) // the two goroutines below are the only ones: a wait nobody can end is a hang
	p := NewPromise(Method{}, &vCaller{})
	var c *Client
	vPar(func() {
		p.Fulfill(Ptr{})
	}, func() {
		c = p.Answer().Client()
	})
	vReach("joined")
	vAssert(vLocksHeld() == 0, "C11.par.client.no-lock-held")
	vAssert(vIsClosed(p.Answer().Done()), "C11.par.client.resolved")
	// whichever came first, the client now refers to the resolution (null -> calls fail)
	a, _ := c.SendCall(context.Background(), Send{})
	_, err := a.Struct()
	vAssert(err != nil, "C11.par.client.refers-to-resolution")
	p.ReleaseClients()
	vAssert(vLocksHeld() == 0, "C11.par.client.release.no-lock-held")
}

// Join races with the parent's resolution
func VH_C11_par_join_vs_fulfill() {
	vNoBlock(true) // the two goroutines below are the only ones: a wait nobody can end is a hang
	p1 := NewPromise(Method{}, &vCaller{})
	p2 := NewPromise(Method{}, &vCaller{})
	vPar(func() {
		p1.Fulfill(Ptr{})
	}, func() {
		p2.Join(p1.Answer())
	})
	vReach("joined")
	vAssert(vLocksHeld() == 0, "C11.par.join.no-lock-held")
	vAssert(vIsClosed(p1.Answer().Done()) && vIsClosed(p2.Answer().Done()), "C11.par.join.both-resolved")
}

// One step of the promise state machine from a pre-state built directly (the states "pending join"
// and "unresolved" with or without a pipelined client, which real histories reach only with three
// goroutines): resolve() must leave pending join, wake everything parked on the join channel and
// close every completion signal.
func VH_C11_resolve_step() {
	p := NewPromise(Method{}, &vCaller{})
	withClient := vNondetBool()
	if withClient {
		_ = p.Answer().Client()
	}
	pendingJoin := vNondetBool()
	extra := make(chan struct{})
	var j chan struct{}
	p.mu.Lock()
	p.caller = nil
	if pendingJoin {
		// as Join leaves it while it waits for its parent
		j = make(chan struct{})
		p.joined = j
	}
	if vNondetBool() {
		// a child joined earlier: its completion signal is carried along
		p.signals = append(p.signals, extra)
	} else {
		close(extra)
	}
	if vNondetBool() {
		p.resolve(Ptr{}, nil)
	} else {
		p.resolve(Ptr{}, newError("rejected"))
	}
	vReach("resolved")
	vAssert(p.joined == nil, "C11.step.left-pending-join")
	vAssert(!p.isPendingJoin() && p.isResolved(), "C11.step.resolved-state")
	vAssert(p.callsStopped == nil, "C11.step.calls-stopped-cleared")
	p.mu.Unlock()
	if pendingJoin {
		vAssert(vIsClosed(j), "C11.step.join-waiters-released")
	}
	vAssert(vIsClosed(p.Answer().Done()), "C11.step.done-closed")
	vAssert(vIsClosed(extra), "C11.step.every-signal-closed")
	vAssert(vLocksHeld() == 0, "C11.step.no-lock-held")
	// operations that wait on the promise return now
	vNoBlock(true)
	_, _ = p.Answer().Struct()
	c := p.Answer().Client()
	_ = c
	p.ReleaseClients()
	vAssert(vLocksHeld() == 0, "C11.step.after.no-lock-held")
}

// Join chains: promises joined over one or two hops (built forwards or backwards), each of which may
// have handed out a pipelined client for the same path before. After the head is fulfilled with a
// capability every such client reaches THAT capability, asking again gives a working client, and
// once every promise has released its clients and every handle is released the capability is shut
// down exactly once - nothing leaks, nothing is released twice.
func VH_C11_join_chain() {
	x := &vHook{}
	cx := NewClient(x)
	msg, seg := vNewMsg()
	res, err := NewStruct(seg, ObjectSize{PointerCount: 1})
	vAssume(err == nil)
	vAssume(res.SetPtr(0, NewInterface(seg, msg.AddCap(cx)).ToPtr()) == nil)
	hops := 1 + vConc(int(vNondetU8()), 2) // 1: b joins a; 2: c joins b joins a
	var p [3]*Promise
	for i := range p {
		p[i] = NewPromise(Method{}, &vCaller{})
	}
	path := []PipelineOp{{Field: 0}}
	var cl [3]*Client
	var has [3]bool
	for i := 0; i <= hops; i++ {
		has[i] = vConc(int(vNondetU8()), 2) == 1
		if has[i] {
			cl[i] = p[i].Answer().Field(0, nil).Client()
		}
	}
	_ = path
	if hops == 1 {
		p[1].Join(p[0].Answer())
	} else if vConc(int(vNondetU8()), 2) == 1 {
		// backwards: the tail joins the middle before the middle joins the head
		p[2].Join(p[1].Answer())
		p[1].Join(p[0].Answer())
	} else {
		p[1].Join(p[0].Answer())
		p[2].Join(p[1].Answer())
	}
	vReach("joined")
	vAssert(vLocksHeld() == 0, "C11.chain.join.no-lock-held")
	vNoBlock(true)
	p[0].Fulfill(res.ToPtr())
	vReach("fulfilled")
	vAssert(vLocksHeld() == 0, "C11.chain.fulfill.no-lock-held")
	for i := 0; i <= hops; i++ {
		vAssert(vIsClosed(p[i].Answer().Done()), "C11.chain.every-joined-promise-resolved")
	}
	// every client handed out earlier now delivers to the capability in the result
	want := 0
	for i := 0; i <= hops; i++ {
		if has[i] {
			_, rel := cl[i].SendCall(context.Background(), Send{})
			rel()
			want++
			vAssert(x.sends == want, "C11.chain.earlier-client-reaches-the-resolved-capability")
			vAssert(!cl[i].State().IsPromise && cl[i].IsSame(cx), "C11.chain.earlier-client-resolved-to-the-capability")
		}
	}
	// asking again, on any promise of the chain, is harmless and works
	again := p[hops].Answer().Field(0, nil).Client()
	_, rel := again.SendCall(context.Background(), Send{})
	rel()
	want++
	vAssert(x.sends == want, "C11.chain.client-after-resolution-reaches-the-capability")
	// (clients obtained from an Answer are borrowed references: the promise owns them)
	for i := 0; i <= hops; i++ {
		p[i].ReleaseClients()
		vAssert(vLocksHeld() == 0, "C11.chain.release.no-lock-held")
	}
	for i := 0; i <= hops; i++ {
		vAssert(p[i].clientsRefs == 0, "C11.chain.client-table-references-balanced")
	}
	vAssert(x.shutdowns == 0, "C11.chain.capability-alive-while-the-result-holds-it")
	msg.Reset(nil) // drops the result message's capability table
	vReach("released")
	vAssert(x.shutdowns == 1, "C11.chain.capability-shut-down-exactly-once-when-all-released")
}

// vGateCaller: a PipelineCaller whose calls stay inside it until the gate opens
type vGateCaller struct {
	gate          chan struct{}
	entered, left int
}

func (c *vGateCaller) PipelineSend(ctx context.Context, transform []PipelineOp, s Send) (*Answer, ReleaseFunc) {
	c.entered++
	<-c.gate
	c.left++
	return ErrorAnswer(s.Method, newError("vGateCaller")), func() {}
}

func (c *vGateCaller) PipelineRecv(ctx context.Context, transform []PipelineOp, r Recv) PipelineCaller {
	c.entered++
	<-c.gate
	c.left++
	return nil
}

// Resolution (Fulfill, Reject or Join) while a pipelined call - sent or received - is still inside
// the promise's PipelineCaller: the resolution waits for the call, completes when it has returned,
// and every waiter is released. Scripted with cooperative goroutines.
func VH_C11_resolve_during_call() {
	gc := &vGateCaller{gate: make(chan struct{})}
	p := NewPromise(Method{}, gc)
	other := NewPromise(Method{}, &vCaller{})
	recv := vConc(int(vNondetU8()), 2) == 1
	how := vConc(int(vNondetU8()), 3) // 0 Fulfill, 1 Reject, 2 Join
	callDone, resolved := false, false
	go func() {
		if recv {
			p.Answer().PipelineRecv(context.Background(), nil, Recv{Returner: vReturner{}, ReleaseArgs: func() {}})
		} else {
			_, rel := p.Answer().PipelineSend(context.Background(), nil, Send{})
			rel()
		}
		callDone = true
	}()
	vSettle()
	vReach("call-inside-caller")
	vAssert(gc.entered == 1 && !callDone, "C11.during.call-is-inside-the-caller")
	go func() {
		switch how {
		case 0:
			p.Fulfill(Ptr{})
		case 1:
			p.Reject(newError("rejected"))
		default:
			p.Join(other.Answer())
		}
		resolved = true
	}()
	vSettle()
	vAssert(!resolved, "C11.during.resolution-waits-for-the-call")
	// while the resolution is pending, a received pipelined call whose context is already cancelled
	// is rejected exactly once and goes nowhere else
	cctx, cancel := context.WithCancel(context.Background())
	cancel()
	lateRet := &vCountReturner{}
	lateRel := 0
	p.Answer().PipelineRecv(cctx, nil, Recv{Returner: lateRet, ReleaseArgs: func() { lateRel++ }})
	vAssert(lateRet.returns == 1 && lateRet.err != nil, "C11.during.cancelled-call-rejected-exactly-once")
	vAssert(gc.entered == 1, "C11.during.cancelled-call-not-dispatched")
	vAssert(vLocksHeld() == 0, "C11.during.cancelled-call.no-lock-held")
	close(gc.gate)
	vSettle()
	vReach("released")
	vAssert(callDone && gc.left == 1, "C11.during.call-completes")
	vAssert(resolved, "C11.during.resolution-completes-once-the-call-has-returned")
	if !resolved {
		return
	}
	vAssert(vLocksHeld() == 0, "C11.during.no-lock-held")
	if how == 2 {
		vAssert(!vIsClosed(p.Answer().Done()), "C11.during.joined-promise-pending-with-its-parent")
		other.Fulfill(Ptr{})
	}
	vAssert(vIsClosed(p.Answer().Done()), "C11.during.done-closed")
	vNoBlock(true)
	_, _ = p.Answer().Struct()
	p.ReleaseClients()
	vAssert(vLocksHeld() == 0, "C11.during.after.no-lock-held")
}

type vCountReturner struct {
	returns int
	err     error
}

func (r *vCountReturner) AllocResults(sz ObjectSize) (Struct, error) {
	return Struct{}, newError("no results")
}
func (r *vCountReturner) Return(e error) { r.returns++; r.err = e }

// vPathCaller records the transform of every pipelined call it gets
type vPathCaller struct {
	paths [][]PipelineOp
}

func (c *vPathCaller) PipelineSend(ctx context.Context, transform []PipelineOp, s Send) (*Answer, ReleaseFunc) {
	c.paths = append(c.paths, transform)
	return ErrorAnswer(s.Method, newError("vPathCaller")), func() {}
}

func (c *vPathCaller) PipelineRecv(ctx context.Context, transform []PipelineOp, r Recv) PipelineCaller {
	c.paths = append(c.paths, transform)
	return nil
}

// A future two fields deep (.Field(a).Field(b), a != b): before resolution the pipelined call carries
// the path [a b] in that order; after resolution the client obtained earlier and one obtained now both
// are the capability at result.a.b - not the one at result.b.a.
func VH_C11_nested_field_path() {
	a := uint16(vConc(int(vNondetU8()), 2))     // 0 or 1
	b := uint16(2 + vConc(int(vNondetU8()), 2)) // 2 or 3
	pc := &vPathCaller{}
	p := NewPromise(Method{}, pc)
	f := p.Answer().Field(a, nil).Field(b, nil)
	early := f.Client()
	_, rel := early.SendCall(context.Background(), Send{})
	rel()
	vReach("pipelined")
	vAssert(len(pc.paths) == 1 && len(pc.paths[0]) == 2 && pc.paths[0][0].Field == a && pc.paths[0][1].Field == b, "C11.nested.pipelined-call-carries-the-path-in-order")
	// result: root.ptr[a] -> struct whose ptr[b] is capability 1; root.ptr[b] -> struct whose ptr[a] is capability 0
	msg, seg := vNewMsg()
	root, err := NewRootStruct(seg, ObjectSize{PointerCount: 4})
	vAssume(err == nil)
	h0, h1 := &vHook{}, &vHook{}
	msg.CapTable = []*Client{NewClient(h0), NewClient(h1)}
	sa, err := NewStruct(seg, ObjectSize{PointerCount: 4})
	vAssume(err == nil)
	sb, err := NewStruct(seg, ObjectSize{PointerCount: 4})
	vAssume(err == nil)
	vAssume(sa.SetPtr(b, NewInterface(seg, 1).ToPtr()) == nil)
	vAssume(sb.SetPtr(a, NewInterface(seg, 0).ToPtr()) == nil)
	vAssume(root.SetPtr(a, sa.ToPtr()) == nil)
	vAssume(root.SetPtr(b, sb.ToPtr()) == nil)
	p.Fulfill(root.ToPtr())
	vReach("fulfilled")
	early.SendCall(context.Background(), Send{})
	vAssert(h1.sends == 1 && h0.sends == 0, "C11.nested.earlier-client-is-the-capability-at-the-path")
	late := p.Answer().Field(a, nil).Field(b, nil).Client()
	late.SendCall(context.Background(), Send{})
	vAssert(h1.sends == 2 && h0.sends == 0, "C11.nested.later-client-is-the-capability-at-the-path")
	vAssert(vLocksHeld() == 0, "C11.nested.no-lock-held")
}

// TWO pipelined calls inside the PipelineCaller when the resolution starts: it waits for BOTH - it
// does not complete when the first one returns.
func VH_C11_resolve_waits_for_every_call() {
	g1, g2 := make(chan struct{}), make(chan struct{})
	gc := &vTwoGateCaller{gates: [2]chan struct{}{g1, g2}}
	p := NewPromise(Method{}, gc)
	done := [2]bool{}
	resolved := false
	for k := 0; k < 2; k++ {
		kk := k
		go func() {
			_, rel := p.Answer().PipelineSend(context.Background(), nil, Send{})
			rel()
			done[kk] = true
		}()
		vSettle()
	}
	vAssert(gc.entered == 2, "C11.two.both-calls-inside-the-caller")
	go func() {
		p.Fulfill(Ptr{})
		resolved = true
	}()
	vSettle()
	vAssert(!resolved, "C11.two.resolution-waits")
	close(g1)
	vSettle()
	vReach("first-returned")
	vAssert(!resolved, "C11.two.resolution-still-waits-for-the-second-call")
	close(g2)
	vSettle()
	vReach("second-returned")
	vAssert(resolved && done[0] && done[1], "C11.two.resolution-completes-after-every-call")
	vAssert(vLocksHeld() == 0, "C11.two.no-lock-held")
}

type vTwoGateCaller struct {
	gates   [2]chan struct{}
	entered int
}

func (c *vTwoGateCaller) PipelineSend(ctx context.Context, transform []PipelineOp, s Send) (*Answer, ReleaseFunc) {
	k := c.entered
	c.entered++
	<-c.gates[k]
	return ErrorAnswer(s.Method, newError("vTwoGateCaller")), func() {}
}

func (c *vTwoGateCaller) PipelineRecv(ctx context.Context, transform []PipelineOp, r Recv) PipelineCaller {
	return nil
}

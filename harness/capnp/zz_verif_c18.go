package capnp

// C18: canonical form. Inputs are built with the builder API on small concrete shapes (so they are
// valid by construction) with symbolic contents; padding bytes the builder leaves zero are then
// overwritten with symbolic garbage where the spec allows garbage. The expected canonical bytes are
// written out word by word from the spec's canonicalisation rules.

func vNewMsg() (*Message, *Segment) {
	msg, seg, err := NewMessage(SingleSegment(nil))
	vAssume(err == nil)
	return msg, seg
}

func vWord(b []byte, i int) uint64 { return refLoad64(b, int64(8*i)) }

func refStructPtrWord(offWords int64, dw, pw uint64) uint64 {
	return uint64(uint32(offWords<<2)) | dw<<32 | pw<<48
}

func refListPtrWord(offWords int64, code, count uint64) uint64 {
	return 1 | uint64(uint32(offWords<<2)) | code<<32 | count<<35
}

// a struct with D data words and P null pointers: trailing zero words are truncated
func VH_C18_flat_struct() {
	_, seg := vNewMsg()
	D := vConc(int(vNondetU8()), 3)
	P := vConc(int(vNondetU8()), 3)
	s, err := NewRootStruct(seg, ObjectSize{DataSize: Size(8 * D), PointerCount: uint16(P)})
	vAssume(err == nil)
	var w [2]uint64
	for i := 0; i < D; i++ {
		w[i] = vNondetU64()
		s.SetUint64(DataOffset(8*i), w[i])
	}
	out, err := Canonicalize(s)
	vReach("returned")
	vAssert(err == nil, "C18.flat.no-error")
	if err != nil {
		return
	}
	d := 0
	for i := 0; i < D; i++ {
		if w[i] != 0 {
			d = i + 1
		}
	}
	vAssert(len(out) == 8+8*d, "C18.flat.length-truncated")
	if len(out) != 8+8*d {
		return
	}
	if d == 0 {
		vAssert(vWord(out, 0) == refStructPtrWord(-1, 0, 0), "C18.flat.empty-struct-root")
	} else {
		vAssert(vWord(out, 0) == refStructPtrWord(0, uint64(d), 0), "C18.flat.root-pointer")
	}
	for i := 0; i < d; i++ {
		vAssert(vWord(out, 1+i) == w[i], "C18.flat.data")
	}
	// canonicalising the canonical message returns it unchanged
	m2, err := Unmarshal(append([]byte{0, 0, 0, 0, byte(len(out) / 8), 0, 0, 0}, out...))
	vAssume(err == nil)
	r2, err := m2.Root()
	vAssert(err == nil, "C18.flat.canonical-decodes")
	if err == nil {
		out2, err := Canonicalize(r2.Struct())
		vAssert(err == nil && len(out2) == len(out), "C18.flat.idempotent-length")
		if err == nil && len(out2) == len(out) {
			for i := 0; i < len(out)/8; i++ {
				vAssert(vWord(out2, i) == vWord(out, i), "C18.flat.idempotent")
			}
		}
	}
}

// a Data field: bytes copied, padding zeroed regardless of what the source padding holds
func VH_C18_data_list() {
	_, seg := vNewMsg()
	s, err := NewRootStruct(seg, ObjectSize{PointerCount: 1})
	vAssume(err == nil)
	n := vConc(int(vNondetU8()), 10)
	src := vNondetBytes(n)
	l, err := NewData(seg, src)
	vAssume(err == nil)
	vAssume(s.SetPtr(0, l.ToPtr()) == nil)
	// garbage in the source list's padding (foreign writers need not zero it)
	for k := int(l.off) + n; k < len(seg.data); k++ {
		seg.data[k] = vNondetU8()
	}
	out, err := Canonicalize(s)
	vReach("returned")
	vAssert(err == nil, "C18.data.no-error")
	if err != nil {
		return
	}
	words := (n + 7) / 8
	vAssert(len(out) == 16+8*words, "C18.data.length")
	if len(out) != 16+8*words {
		return
	}
	vAssert(vWord(out, 0) == refStructPtrWord(0, 0, 1), "C18.data.root-pointer")
	vAssert(vWord(out, 1) == refListPtrWord(0, 2, uint64(n)), "C18.data.list-pointer-preorder")
	for k := 0; k < 8*words; k++ {
		if k < n {
			vAssert(out[16+k] == src[k], "C18.data.bytes")
		} else {
			vAssert(out[16+k] == 0, "C18.data.padding-zeroed")
		}
	}
}

// composite list: every element is truncated to the maximum canonical element size, tag rewritten
func vCompositeCanon(ptrs int) {
	_, seg := vNewMsg()
	s, err := NewRootStruct(seg, ObjectSize{PointerCount: 1})
	vAssume(err == nil)
	n := 1 + vConc(int(vNondetU8()), 2)
	l, err := NewCompositeList(seg, ObjectSize{DataSize: 16, PointerCount: uint16(ptrs)}, int32(n))
	vAssume(err == nil)
	var w [2][2]uint64
	for i := 0; i < n; i++ {
		for j := 0; j < 2; j++ {
			w[i][j] = vNondetU64()
			l.Struct(i).SetUint64(DataOffset(8*j), w[i][j])
		}
	}
	vAssume(s.SetPtr(0, l.ToPtr()) == nil)
	vRegion("data_only_composite", ptrs == 0)
	out, err := Canonicalize(s)
	vReach("returned")
	vAssert(err == nil, "C18.composite.no-error")
	if err != nil {
		return
	}
	d := 0
	for i := 0; i < n; i++ {
		for j := 0; j < 2; j++ {
			if w[i][j] != 0 && j+1 > d {
				d = j + 1
			}
		}
	}
	vAssert(len(out) == 24+8*n*d, "C18.composite.length-truncated")
	if len(out) != 24+8*n*d {
		return
	}
	vAssert(vWord(out, 0) == refStructPtrWord(0, 0, 1), "C18.composite.root-pointer")
	vAssert(vWord(out, 1) == refListPtrWord(0, 7, uint64(n*d)), "C18.composite.list-pointer-word-count")
	vAssert(vWord(out, 2) == refStructPtrWord(int64(n), uint64(d), 0), "C18.composite.tag")
	for i := 0; i < n; i++ {
		for j := 0; j < d; j++ {
			vAssert(vWord(out, 3+i*d+j) == w[i][j], "C18.composite.element-data")
		}
	}
}

func VH_C18_composite_dataonly() { vCompositeCanon(0) }
func VH_C18_composite_ptrs()     { vCompositeCanon(1) }

// capabilities are rejected
func VH_C18_interface_rejected() {
	_, seg := vNewMsg()
	s, err := NewRootStruct(seg, ObjectSize{PointerCount: 1})
	vAssume(err == nil)
	vAssume(s.SetPtr(0, NewInterface(seg, CapabilityID(vNondetU32())).ToPtr()) == nil)
	_, err = Canonicalize(s)
	vReach("returned")
	vAssert(err != nil, "C18.interface.rejected")
}

// layout independence: the same value built in a different allocation order and across segments
// (far / double-far pointers) canonicalises to the same bytes
func VH_C18_layout_independent() {
	n := vConc(int(vNondetU8()), 4)
	src := vNondetBytes(n)
	v := vNondetU64()
	// layout A: struct first, then the list, one segment
	_, segA := vNewMsg()
	a, err := NewRootStruct(segA, ObjectSize{DataSize: 8, PointerCount: 1})
	vAssume(err == nil)
	a.SetUint64(0, v)
	la, err := NewData(segA, src)
	vAssume(err == nil && a.SetPtr(0, la.ToPtr()) == nil)
	// layout B: list first, struct later, in a multi-segment message whose first segment is tiny
	msgB := &Message{Arena: MultiSegment([][]byte{make([]byte, 0, 8), make([]byte, 0, 16), make([]byte, 0, 64)})}
	segB, err := msgB.Segment(0)
	vAssume(err == nil)
	_, _, err = alloc(segB, 8) // root pointer
	vAssume(err == nil)
	lb, err := NewData(segB, src)
	vAssume(err == nil)
	b, err := NewStruct(segB, ObjectSize{DataSize: 16, PointerCount: 2}) // a newer schema version
	vAssume(err == nil)
	b.SetUint64(0, v)
	vAssume(b.SetPtr(0, lb.ToPtr()) == nil && msgB.SetRoot(b.ToPtr()) == nil)
	rb, err := msgB.Root()
	vAssume(err == nil)
	oa, ea := Canonicalize(a)
	ob, eb := Canonicalize(rb.Struct())
	vReach("returned")
	vAssert(ea == nil && eb == nil, "C18.layout.no-error")
	if ea != nil || eb != nil {
		return
	}
	vAssert(len(oa) == len(ob), "C18.layout.same-length")
	if len(oa) == len(ob) {
		for i := 0; i < len(oa)/8; i++ {
			vAssert(vWord(oa, i) == vWord(ob, i), "C18.layout.byte-identical")
		}
	}
}

// canonicalStructSize against the reference truncation
func VH_C18_structsize() {
	seg := vSeg()
	s := vStructSmall(seg)
	sz := canonicalStructSize(s)
	vReach("returned")
	d, p := 0, 0
	for i := 0; i < int(s.size.DataSize)/8; i++ {
		if refLoad64(seg.data, int64(s.off)+8*int64(i)) != 0 {
			d = i + 1
		}
	}
	for i := 0; i < int(s.size.PointerCount); i++ {
		if refLoad64(seg.data, int64(s.off)+int64(s.size.DataSize)+8*int64(i)) != 0 {
			p = i + 1
		}
	}
	vAssert(int(sz.DataSize) == 8*d && int(sz.PointerCount) == p, "C18.structsize.trailing-zero-words-truncated")
}

// composite list whose elements carry data AND pointers in any combination: the canonical element
// size is the maximum over the elements of each section separately, and every element's fields and
// pointers are still there when the canonical bytes are read back
func VH_C18_composite_mixed() {
	_, seg := vNewMsg()
	s, err := NewRootStruct(seg, ObjectSize{PointerCount: 1})
	vAssume(err == nil)
	const n = 2
	l, err := NewCompositeList(seg, ObjectSize{DataSize: 8, PointerCount: 1}, n)
	vAssume(err == nil)
	var w [n]uint64
	var has [n]bool
	var pay [n]byte
	for i := 0; i < n; i++ {
		w[i] = vNondetU64()
		l.Struct(i).SetUint64(0, w[i])
		has[i] = vConc(int(vNondetU8()), 2) == 1
		pay[i] = vNondetU8()
		if has[i] {
			vAssume(l.Struct(i).SetData(0, []byte{pay[i]}) == nil)
		}
	}
	vAssume(s.SetPtr(0, l.ToPtr()) == nil)
	out, err := Canonicalize(s)
	vReach("returned")
	vAssert(err == nil, "C18.mixed.no-error")
	if err != nil {
		return
	}
	d, p := 0, 0
	for i := 0; i < n; i++ {
		if w[i] != 0 {
			d = 1
		}
		if has[i] {
			p = 1
		}
	}
	vAssert(len(out) >= 24, "C18.mixed.length")
	if len(out) < 24 {
		return
	}
	vAssert(vWord(out, 1) == refListPtrWord(0, 7, uint64(n*(d+p))), "C18.mixed.list-pointer-word-count")
	vAssert(vWord(out, 2) == refStructPtrWord(int64(n), uint64(d), uint64(p)), "C18.mixed.tag-is-maximum-of-each-section")
	// read back
	m := &Message{Arena: SingleSegment(out)}
	root, err := m.Root()
	vAssert(err == nil, "C18.mixed.readable")
	if err != nil {
		return
	}
	lp, err := root.Struct().Ptr(0)
	vAssert(err == nil && lp.List().Len() == n, "C18.mixed.list-readable")
	if err != nil || lp.List().Len() != n {
		return
	}
	for i := 0; i < n; i++ {
		e := lp.List().Struct(i)
		vAssert(e.Uint64(0) == w[i], "C18.mixed.element-data-preserved")
		ep, err := e.Ptr(0)
		vAssert(err == nil, "C18.mixed.element-pointer-readable")
		if err != nil {
			continue
		}
		if has[i] {
			vAssert(len(ep.Data()) == 1 && ep.Data()[0] == pay[i], "C18.mixed.element-pointer-preserved")
		} else {
			vAssert(!ep.IsValid(), "C18.mixed.absent-pointer-stays-null")
		}
	}
}

// a value whose canonical form is larger than one default segment (1 KiB): still ONE segment,
// complete, readable
func VH_C18_large_single_segment() {
	_, seg := vNewMsg()
	s, err := NewRootStruct(seg, ObjectSize{DataSize: 8, PointerCount: 1})
	vAssume(err == nil)
	x := vNondetU64()
	s.SetUint64(0, x)
	blob := make([]byte, 1500)
	last := vNondetU8()
	blob[1499] = last
	vAssume(s.SetData(0, blob) == nil)
	out, err := Canonicalize(s)
	vReach("returned")
	vAssert(err == nil, "C18.large.no-error")
	if err != nil {
		return
	}
	d := 0
	if x != 0 {
		d = 1
	}
	vAssert(len(out) == 8*(1+d+1)+1504, "C18.large.complete-in-one-segment")
	if len(out) != 8*(1+d+1)+1504 {
		return
	}
	vAssert(vWord(out, 0) == refStructPtrWord(0, uint64(d), 1), "C18.large.root-pointer")
	vAssert(vWord(out, 1+d) == refListPtrWord(0, 2, 1500), "C18.large.data-pointer-is-near")
	vAssert(out[8*(2+d)+1499] == last, "C18.large.last-byte")
}

// two non-null pointers: the objects follow the struct in the order of the pointer fields
// (pre-order), whatever order they were allocated in
func VH_C18_two_pointers_preorder() {
	_, seg := vNewMsg()
	s, err := NewRootStruct(seg, ObjectSize{PointerCount: 2})
	vAssume(err == nil)
	a, b := vNondetU8(), vNondetU8()
	if vConc(int(vNondetU8()), 2) == 1 {
		// the second field's object is allocated first
		vAssume(s.SetData(1, []byte{b, b, b}) == nil)
		vAssume(s.SetData(0, []byte{a}) == nil)
	} else {
		vAssume(s.SetData(0, []byte{a}) == nil)
		vAssume(s.SetData(1, []byte{b, b, b}) == nil)
	}
	out, err := Canonicalize(s)
	vReach("returned")
	vAssert(err == nil && len(out) == 8*5, "C18.preorder.length")
	if err != nil || len(out) != 40 {
		return
	}
	vAssert(vWord(out, 0) == refStructPtrWord(0, 0, 2), "C18.preorder.root-pointer")
	vAssert(vWord(out, 1) == refListPtrWord(1, 2, 1), "C18.preorder.first-field-object-comes-first")
	vAssert(vWord(out, 2) == refListPtrWord(1, 2, 3), "C18.preorder.second-field-object-comes-second")
	vAssert(out[24] == a && out[32] == b && out[34] == b, "C18.preorder.object-bytes")
}

// the canonical form does not depend on the padding bytes after a byte / 2-byte / 4-byte list in the
// input (a message from another writer may leave anything there): they come out as zero
func VH_C18_list_padding_ignored() {
	_, seg := vNewMsg()
	s, err := NewRootStruct(seg, ObjectSize{PointerCount: 1})
	vAssume(err == nil)
	kind := vConc(int(vNondetU8()), 3)
	var l List
	n := 0
	switch kind {
	case 0:
		x, e := NewUInt8List(seg, 3)
		l, err, n = x.List, e, 3
	case 1:
		x, e := NewUInt16List(seg, 1)
		l, err, n = x.List, e, 2
	default:
		x, e := NewUInt32List(seg, 1)
		l, err, n = x.List, e, 4
	}
	vAssume(err == nil)
	v := vNondetBytes(8)
	for j := 0; j < 8; j++ {
		seg.data[int(l.off)+j] = v[j] // content AND padding of the list's only word
	}
	vAssume(s.SetPtr(0, l.ToPtr()) == nil)
	out, err := Canonicalize(s)
	vReach("returned")
	vAssert(err == nil && len(out) == 24, "C18.padding.shape")
	if err != nil || len(out) != 24 {
		return
	}
	for j := 0; j < 8; j++ {
		if j < n {
			vAssert(out[16+j] == v[j], "C18.padding.content-kept")
		} else {
			vAssert(out[16+j] == 0, "C18.padding.padding-bytes-zeroed")
		}
	}
}

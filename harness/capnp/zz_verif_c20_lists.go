package capnp

import (
	"math"
	"strconv"
)

// C20, list rendering (list.go, used by encoding/text for every List(primitive) field): for a list
// of two symbolic elements the text is "[" token ", " token "]" where token i is produced by the
// right strconv formatter (signed / unsigned / float / bool) from exactly the value At(i) returns.
// Digits themselves are strconv's (an uninterpreted function of formatter and operands).

func vListSeg() *Segment {
	_, seg, err := NewMessage(SingleSegment(nil))
	vAssume(err == nil)
	return seg
}

// kind: 1 signed, 2 unsigned, 3 float32, 6 float64
func vCheckListString(s string, mark int, kind int, v0, v1 uint64, ref func() []byte, id string) {
	vReach("rendered")
	vAssert(vStrTokCount(s, mark) == 2, id+".one-token-per-element")
	vAssert(vStrTokIs(s, mark, 0, kind, v0), id+".element-0-token")
	vAssert(vStrTokIs(s, mark, 1, kind, v1), id+".element-1-token")
	want := ref()
	vAssert(len(s) == len(want), id+".length-equals-reference")
	if len(s) == len(want) && len(s) >= 6 {
		vAssert(s[0] == '[' && s[len(s)-1] == ']', id+".brackets")
		vAssert(s[1] == want[1] && s[len(s)-2] == want[len(s)-2], id+".edge-bytes-equal-reference")
	}
}

func vRefInts(kind int, v0, v1 uint64) []byte {
	out := []byte{'['}
	if kind == 1 {
		out = strconv.AppendInt(out, int64(v0), 10)
		out = append(out, ", "...)
		out = strconv.AppendInt(out, int64(v1), 10)
	} else {
		out = strconv.AppendUint(out, v0, 10)
		out = append(out, ", "...)
		out = strconv.AppendUint(out, v1, 10)
	}
	return append(out, ']')
}

func VH_C20_list_int8() {
	l, err := NewInt8List(vListSeg(), 2)
	vAssume(err == nil)
	a, b := int8(vNondetU8()), int8(vNondetU8())
	l.Set(0, a)
	l.Set(1, b)
	m := vTokMark()
	s := l.String()
	vCheckListString(s, m, 1, uint64(int64(a)), uint64(int64(b)), func() []byte { return vRefInts(1, uint64(int64(a)), uint64(int64(b))) }, "C20.list.int8")
}

func VH_C20_list_int16() {
	l, err := NewInt16List(vListSeg(), 2)
	vAssume(err == nil)
	a, b := int16(vNondetU16()), int16(vNondetU16())
	l.Set(0, a)
	l.Set(1, b)
	m := vTokMark()
	s := l.String()
	vCheckListString(s, m, 1, uint64(int64(a)), uint64(int64(b)), func() []byte { return vRefInts(1, uint64(int64(a)), uint64(int64(b))) }, "C20.list.int16")
}

func VH_C20_list_int32() {
	l, err := NewInt32List(vListSeg(), 2)
	vAssume(err == nil)
	a, b := int32(vNondetU32()), int32(vNondetU32())
	l.Set(0, a)
	l.Set(1, b)
	m := vTokMark()
	s := l.String()
	vCheckListString(s, m, 1, uint64(int64(a)), uint64(int64(b)), func() []byte { return vRefInts(1, uint64(int64(a)), uint64(int64(b))) }, "C20.list.int32")
}

func VH_C20_list_int64() {
	l, err := NewInt64List(vListSeg(), 2)
	vAssume(err == nil)
	a, b := int64(vNondetU64()), int64(vNondetU64())
	l.Set(0, a)
	l.Set(1, b)
	m := vTokMark()
	s := l.String()
	vCheckListString(s, m, 1, uint64(a), uint64(b), func() []byte { return vRefInts(1, uint64(a), uint64(b)) }, "C20.list.int64")
}

func VH_C20_list_uint8() {
	l, err := NewUInt8List(vListSeg(), 2)
	vAssume(err == nil)
	a, b := vNondetU8(), vNondetU8()
	l.Set(0, a)
	l.Set(1, b)
	m := vTokMark()
	s := l.String()
	vCheckListString(s, m, 2, uint64(a), uint64(b), func() []byte { return vRefInts(2, uint64(a), uint64(b)) }, "C20.list.uint8")
}

func VH_C20_list_uint16() {
	l, err := NewUInt16List(vListSeg(), 2)
	vAssume(err == nil)
	a, b := vNondetU16(), vNondetU16()
	l.Set(0, a)
	l.Set(1, b)
	m := vTokMark()
	s := l.String()
	vCheckListString(s, m, 2, uint64(a), uint64(b), func() []byte { return vRefInts(2, uint64(a), uint64(b)) }, "C20.list.uint16")
}

func VH_C20_list_uint32() {
	l, err := NewUInt32List(vListSeg(), 2)
	vAssume(err == nil)
	a, b := vNondetU32(), vNondetU32()
	l.Set(0, a)
	l.Set(1, b)
	m := vTokMark()
	s := l.String()
	vCheckListString(s, m, 2, uint64(a), uint64(b), func() []byte { return vRefInts(2, uint64(a), uint64(b)) }, "C20.list.uint32")
}

func VH_C20_list_uint64() {
	l, err := NewUInt64List(vListSeg(), 2)
	vAssume(err == nil)
	a, b := vNondetU64(), vNondetU64()
	l.Set(0, a)
	l.Set(1, b)
	m := vTokMark()
	s := l.String()
	vCheckListString(s, m, 2, a, b, func() []byte { return vRefInts(2, a, b) }, "C20.list.uint64")
}

func VH_C20_list_float32() { vListFloat32(false) }

func VH_C20_list_float32_precise() { vListFloat32(true) }

func vListFloat32(precise bool) {
	l, err := NewFloat32List(vListSeg(), 2)
	vAssume(err == nil)
	a, b := math.Float32frombits(vNondetU32()), math.Float32frombits(vNondetU32())
	if precise {
		vAssume(math.Float32bits(a) == math.Float32bits(0.1) || math.Float32bits(a) == math.Float32bits(3.1415927))
		vAssume(math.Float32bits(b) == math.Float32bits(1e-40) || math.Float32bits(b) == math.Float32bits(0.3))
	}
	l.Set(0, a)
	l.Set(1, b)
	m := vTokMark()
	s := l.String()
	want := func() []byte {
		w := []byte{'['}
		w = strconv.AppendFloat(w, float64(a), 'g', -1, 32)
		w = append(w, ", "...)
		w = strconv.AppendFloat(w, float64(b), 'g', -1, 32)
		return append(w, ']')
	}
	vCheckListString(s, m, 3, math.Float64bits(float64(a)), math.Float64bits(float64(b)), want, "C20.list.float32")
}

func VH_C20_list_float64() { vListFloat64(false) }

// the same over values whose shortest text differs between 32- and 64-bit precision, so that a
// precision mix-up replays natively
func VH_C20_list_float64_precise() { vListFloat64(true) }

func vListFloat64(precise bool) {
	l, err := NewFloat64List(vListSeg(), 2)
	vAssume(err == nil)
	a, b := math.Float64frombits(vNondetU64()), math.Float64frombits(vNondetU64())
	if precise {
		vAssume(math.Float64bits(a) == math.Float64bits(math.Pi) || math.Float64bits(a) == math.Float64bits(1e300))
		vAssume(math.Float64bits(b) == math.Float64bits(0.1) || math.Float64bits(b) == math.Float64bits(16777217))
	}
	l.Set(0, a)
	l.Set(1, b)
	m := vTokMark()
	s := l.String()
	want := func() []byte {
		w := []byte{'['}
		w = strconv.AppendFloat(w, a, 'g', -1, 64)
		w = append(w, ", "...)
		w = strconv.AppendFloat(w, b, 'g', -1, 64)
		return append(w, ']')
	}
	vCheckListString(s, m, 6, math.Float64bits(a), math.Float64bits(b), want, "C20.list.float64")
}

// Bool and Void lists have no strconv tokens: the whole string is compared
func VH_C20_list_bool_void() {
	n := int32(vNondetU8())
	vAssume(n <= 3)
	bl, err := NewBitList(vListSeg(), n)
	vAssume(err == nil)
	want := "["
	for i := 0; i < int(n); i++ {
		v := vNondetBool()
		bl.Set(i, v)
		if i > 0 {
			want += ", "
		}
		if v {
			want += "true"
		} else {
			want += "false"
		}
	}
	want += "]"
	vReach("rendered")
	vAssert(bl.String() == want, "C20.list.bool.text")
	vl := NewVoidList(vListSeg(), n)
	wv := [4]string{"[]", "[void]", "[void, void]", "[void, void, void]"}
	vAssert(vl.String() == wv[n], "C20.list.void.text")
}

// Text and Data lists: every element goes through the quoting routine; an element that cannot be
// read is shown as <error>, never as part of another literal
func VH_C20_list_text_data() {
	seg := vListSeg()
	tl, err := NewTextList(seg, 2)
	vAssume(err == nil)
	c := vNondetU8()
	vAssume(tl.Set(0, string([]byte{'a', c})) == nil)
	vAssume(tl.Set(1, "") == nil)
	s := tl.String()
	vReach("rendered")
	vAssert(len(s) >= 10, "C20.list.text.shape")
	if len(s) >= 10 {
		vAssert(s[0] == '[' && s[1] == '"' && s[2] == 'a', "C20.list.text.opens-with-quoted-element")
		vAssert(s[len(s)-1] == ']' && s[len(s)-2] == '"' && s[len(s)-3] == '"' && s[len(s)-4] == ' ' && s[len(s)-5] == ',' && s[len(s)-6] == '"', "C20.list.text.second-element-is-empty-literal")
		// a quote or backslash in the first element is escaped
		if c == '"' || c == '\\' {
			vAssert(len(s) == 11 && s[3] == '\\' && s[4] == c, "C20.list.text.escaped")
		}
		if c >= 'b' && c <= 'z' {
			vAssert(len(s) == 10 && s[3] == c, "C20.list.text.plain")
		}
	}
	dl, err := NewDataList(seg, 1)
	vAssume(err == nil)
	vAssume(dl.Set(0, []byte{c}) == nil)
	d := dl.String()
	vAssert(len(d) >= 5 && d[0] == '[' && d[1] == '"' && d[len(d)-1] == ']' && d[len(d)-2] == '"', "C20.list.data.shape")
	if c == '"' {
		vAssert(d == "[\"\\\"\"]", "C20.list.data.escaped-quote")
	}
}

package capnp

// C04 H-writeread and C05 H-place / H-rawptr: after writePtr the library reads back the same
// object, and an independent spec decoder (below) resolves the written pointer to the same place.

// refResolve follows the pointer word at d[si][paddr] as the encoding spec prescribes.
// It returns the segment index and byte address of the object the pointer designates and the word
// that describes the object (the near pointer itself, the landing-pad word, or the double-far tag).
func refResolve(d [][]byte, si int, paddr int64) (ok bool, tsi int, obj int64, desc uint64) {
	w := refLoad64(d[si], paddr)
	switch refKind(w) {
	case 0, 1:
		return true, si, paddr + 8 + 8*refOffsetWords(w), w
	case 2:
		fs := int(refFarSegment(w))
		pad := 8 * int64(refFarOffsetWords(w))
		if fs >= len(d) {
			return false, 0, 0, 0
		}
		if !refFarIsDouble(w) {
			if pad+8 > int64(len(d[fs])) {
				return false, 0, 0, 0
			}
			pw := refLoad64(d[fs], pad)
			if refKind(pw) > 1 {
				return false, 0, 0, 0
			}
			return true, fs, pad + 8 + 8*refOffsetWords(pw), pw
		}
		if pad+16 > int64(len(d[fs])) {
			return false, 0, 0, 0
		}
		f := refLoad64(d[fs], pad)
		tag := refLoad64(d[fs], pad+8)
		if refKind(f) != 2 || refFarIsDouble(f) || refKind(tag) > 1 || refOffsetWords(tag) != 0 {
			return false, 0, 0, 0
		}
		ts := int(refFarSegment(f))
		if ts >= len(d) {
			return false, 0, 0, 0
		}
		return true, ts, 8 * int64(refFarOffsetWords(f)), tag
	}
	return false, 0, 0, 0
}

func vSegIndex(segs []*Segment, s *Segment) int {
	for i, x := range segs {
		if x == s {
			return i
		}
	}
	return -1
}

// struct target, two writable segments: near / far / double-far are chosen by the symbolic
// len/cap of the segments.
func VH_C04_writeread_struct() {
	msg, segs := vMsgRW(2)
	src := vStructIn(segs[0])
	vAssume(src.flags&isListMember == 0 && !src.size.isZero())
	di := 0
	if vNondetBool() {
		di = 1
	}
	dst := segs[di]
	paddr := int64(vNondetU32())
	vAssume(paddr%8 == 0 && paddr+8 <= segLen(dst))
	// the slot is not part of the source object
	if di == 0 {
		vAssume(paddr+8 <= int64(src.off) || paddr >= int64(src.off)+int64(src.size.totalSize()))
	}
	oldLen0, oldLen1 := segLen(segs[0]), segLen(segs[1])
	j := vNondetInt()
	vAssume(j >= 0 && int64(j) < segLen(dst) && (int64(j) < paddr || int64(j) >= paddr+8))
	oldj := dst.data[j]
	k := vNondetInt()
	vAssume(k >= 0 && int64(k) < oldLen0)
	oldk := segs[0].data[k]
	vAssume(di != 0 || int64(k) < paddr || int64(k) >= paddr+8)
	err := dst.writePtr(address(paddr), src.ToPtr(), false)
	vReach("returned")
	if err != nil {
		return
	}
	vReach("ok")
	// C04: the library reads back the same object
	p, rerr := dst.readPtr(address(paddr), maxDepth)
	vAssert(rerr == nil, "C04.writeread.struct.readable")
	if rerr == nil {
		vAssert(p.flags.ptrType() == structPtrType && p.seg == src.seg && p.off == src.off && p.size == src.size, "C04.writeread.struct.same-object")
	}
	// frame: nothing but the slot and freshly allocated space changed
	vAssert(dst.data[j] == oldj, "C04.writeread.struct.frame-dst")
	vAssert(segs[0].data[k] == oldk, "C04.writeread.struct.frame-src")
	vAssert(segLen(segs[0]) >= oldLen0 && segLen(segs[1]) >= oldLen1, "C04.writeread.struct.no-shrink")
	// C05: the independent decoder resolves the slot to the object, with the right sizes
	nseg := int(msg.NumSegments())
	vAssume(nseg <= 3)
	d := make([][]byte, nseg)
	for i := 0; i < nseg; i++ {
		s, e2 := msg.Segment(SegmentID(i))
		vAssume(e2 == nil)
		d[i] = s.data
		vAssert(len(s.data)%8 == 0, "C05.place.struct.segments-word-aligned")
	}
	ok, tsi, obj, desc := refResolve(d, di, paddr)
	vAssert(ok, "C05.place.struct.resolvable")
	if ok {
		vAssert(tsi == 0 && obj == int64(src.off), "C05.place.struct.address")
		vAssert(refKind(desc) == 0 && 8*refDataWords(desc) == uint64(src.size.DataSize) && refPtrWords(desc) == uint64(src.size.PointerCount), "C05.place.struct.size")
	}
}

// list targets (every element kind), one segment. The placement code after srcAddr/srcRaw is shared
// with structs, whose two-segment harness runs in the quick tier.
// (a two-segment version, vWriteReadList(2), did not finish within 30 minutes and is not registered;
// composite lists in two segments are covered by VH_C04_writeread_composite_small/tiny)
func VH_C04_writeread_list_near() { vWriteReadList(1) }

func vWriteReadList(nsegs int) {
	msg, segs := vMsgRW(nsegs)
	src := vListInTagged(segs[0])
	if nsegs == 1 {
		// composite lists: see VH_C04_writeread_composite_small (quick) and the 2-segment twin (thorough)
		vAssume(src.flags&isCompositeList == 0)
	}
	di := 0
	if nsegs > 1 && vNondetBool() {
		di = 1
	}
	dst := segs[di]
	paddr := int64(vNondetU32())
	vAssume(paddr%8 == 0 && paddr+8 <= segLen(dst))
	if di == 0 {
		// the slot is not part of the list object (tag word included)
		start := int64(src.off)
		if src.flags&isCompositeList != 0 {
			start -= 8
		}
		vAssume(paddr+8 <= start || paddr >= int64(src.off)+int64(src.allocSize()))
	}
	err := dst.writePtr(address(paddr), src.ToPtr(), false)
	vReach("returned")
	if err != nil {
		return
	}
	vReach("ok")
	p, rerr := dst.readPtr(address(paddr), maxDepth)
	vAssert(rerr == nil, "C04.writeread.list.readable")
	if rerr == nil {
		l := p.List()
		vAssert(p.flags.ptrType() == listPtrType && l.seg == src.seg && l.off == src.off && l.length == src.length && l.size == src.size && l.flags == src.flags, "C04.writeread.list.same-object")
	}
	nseg := int(msg.NumSegments())
	vAssume(nseg <= 3)
	d := make([][]byte, nseg)
	for i := 0; i < nseg; i++ {
		s, e2 := msg.Segment(SegmentID(i))
		vAssume(e2 == nil)
		d[i] = s.data
	}
	ok, tsi, obj, desc := refResolve(d, di, paddr)
	vAssert(ok, "C05.place.list.resolvable")
	if ok {
		comp := src.flags&isCompositeList != 0
		want := int64(src.off)
		if comp {
			want -= 8 // a composite list pointer designates the tag word
		}
		vAssert(tsi == 0 && obj == want, "C05.place.list.address")
		vAssert(refKind(desc) == 1, "C05.place.list.kind")
		code := refElemCode(desc)
		cnt := int64(refElemCount(desc))
		switch {
		case comp:
			vAssert(code == 7, "C05.place.list.code-composite")
			vAssert(8*cnt == int64(src.size.totalSize())*int64(src.length), "C05.place.list.composite-word-count")
		case src.flags&isBitList != 0:
			vAssert(code == 1 && cnt == int64(src.length), "C05.place.list.bit")
		case src.size.PointerCount == 1:
			vAssert(code == 6 && cnt == int64(src.length), "C05.place.list.pointer")
		default:
			vAssert(cnt == int64(src.length), "C05.place.list.count")
			vAssert(refElemBytes(code) == int64(src.size.DataSize) && (code != 0 || src.size.DataSize == 0), "C05.place.list.code")
		}
	}
}

// null and zero-sized struct targets
func VH_C04_writeread_null_and_empty() {
	_, seg := vMsgRW1()
	paddr := int64(vNondetU32())
	vAssume(paddr%8 == 0 && paddr+8 <= segLen(seg))
	vReach("entry")
	if vNondetBool() {
		err := seg.writePtr(address(paddr), Ptr{}, false)
		vAssert(err == nil && refLoad64(seg.data, paddr) == 0, "C05.place.null-is-zero-word")
		p, rerr := seg.readPtr(address(paddr), maxDepth)
		vAssert(rerr == nil && !p.IsValid(), "C04.writeread.null")
		return
	}
	e := Struct{seg: seg, off: address(vNondetU32()), depthLimit: maxDepth}
	vAssume(e.off%8 == 0 && int64(e.off) <= segLen(seg))
	err := seg.writePtr(address(paddr), e.ToPtr(), false)
	vAssert(err == nil, "C04.writeread.empty.ok")
	w := refLoad64(seg.data, paddr)
	// spec: a zero-sized struct is encoded with offset -1 so that it is not mistaken for null
	vAssert(w != 0 && refKind(w) == 0 && refOffsetWords(w) == -1 && refDataWords(w) == 0 && refPtrWords(w) == 0, "C05.place.empty-struct-encoding")
	p, rerr := seg.readPtr(address(paddr), maxDepth)
	vAssert(rerr == nil && p.IsValid() && p.flags.ptrType() == structPtrType && p.size.isZero(), "C04.writeread.empty")
}

// capability pointers
func VH_C04_writeread_interface() {
	_, seg := vMsgRW1()
	paddr := int64(vNondetU32())
	vAssume(paddr%8 == 0 && paddr+8 <= segLen(seg))
	c := CapabilityID(vNondetU32())
	err := seg.writePtr(address(paddr), NewInterface(seg, c).ToPtr(), false)
	vReach("returned")
	vAssert(err == nil, "C04.writeread.cap.ok")
	w := refLoad64(seg.data, paddr)
	vAssert(refKind(w) == 3 && (w>>2)&0x3fffffff == 0 && refCapIndex(w) == uint64(c), "C05.place.cap-encoding")
	p, rerr := seg.readPtr(address(paddr), maxDepth)
	vAssert(rerr == nil && p.flags.ptrType() == interfacePtrType && p.Interface().Capability() == c, "C04.writeread.cap")
}

// H-rawptr: pointer word constructors against the reference decoder, full width
func VH_C05_rawptr() {
	vReach("entry")
	off := pointerOffset(int32(vNondetU32()))
	vAssume(off >= -(1<<29) && off < 1<<29)
	sz := ObjectSize{DataSize: Size(vNondetU32()), PointerCount: vNondetU16()}
	vAssume(uint64(sz.DataSize) <= 8*0xffff && sz.DataSize%8 == 0)
	w := uint64(rawStructPointer(off, sz))
	vAssert(refKind(w) == 0 && refOffsetWords(w) == int64(off) && 8*refDataWords(w) == uint64(sz.DataSize) && refPtrWords(w) == uint64(sz.PointerCount), "C05.rawptr.struct")
	lt := listType(vNondetU8() & 7)
	n := int32(vNondetU32())
	vAssume(n >= 0 && n < 1<<29)
	lw := uint64(rawListPointer(off, lt, n))
	vAssert(refKind(lw) == 1 && refOffsetWords(lw) == int64(off) && refElemCode(lw) == uint64(lt) && refElemCount(lw) == uint64(n), "C05.rawptr.list")
	c := CapabilityID(vNondetU32())
	iw := uint64(rawInterfacePointer(c))
	vAssert(refKind(iw) == 3 && (iw>>2)&0x3fffffff == 0 && refCapIndex(iw) == uint64(c), "C05.rawptr.interface")
	sid := SegmentID(vNondetU32())
	fa := address(vNondetU32())
	vAssume(fa%8 == 0)
	fw := uint64(rawFarPointer(sid, fa))
	vAssert(refKind(fw) == 2 && !refFarIsDouble(fw) && refFarSegment(fw) == uint64(sid) && 8*refFarOffsetWords(fw) == uint64(fa), "C05.rawptr.far")
	dw := uint64(rawDoubleFarPointer(sid, fa))
	vAssert(refKind(dw) == 2 && refFarIsDouble(dw) && refFarSegment(dw) == uint64(sid) && 8*refFarOffsetWords(dw) == uint64(fa), "C05.rawptr.doublefar")
	// withOffset replaces the offset and nothing else
	base := vNondetU64()
	vAssume(refKind(base) <= 1)
	nw := uint64(rawPointer(base).withOffset(off))
	vAssert(refOffsetWords(nw) == int64(off) && nw>>32 == base>>32 && refKind(nw) == refKind(base), "C05.rawptr.withOffset")
	// nearPointerOffset: words between the end of the pointer and the target
	pa := address(vNondetU32())
	ta := address(vNondetU32())
	vAssume(pa%8 == 0 && ta%8 == 0 && uint64(pa) <= vMaxSeg && uint64(ta) <= vMaxSeg)
	vAssert(int64(nearPointerOffset(pa, ta)) == (int64(ta)-int64(pa)-8)/8, "C05.rawptr.nearPointerOffset")
}

// List.raw(): element-size code and count for every list kind satisfying its invariant
func VH_C05_listraw() {
	seg := vSeg()
	l := vListInTagged(seg)
	vReach("entry")
	w := uint64(l.raw())
	vAssert(refKind(w) == 1 && refOffsetWords(w) == 0, "C05.listraw.kind")
	switch {
	case l.flags&isCompositeList != 0:
		vAssert(refElemCode(w) == 7, "C05.listraw.composite.code")
		vAssert(8*int64(refElemCount(w)) == int64(l.size.totalSize())*int64(l.length), "C05.listraw.composite.words")
	case l.flags&isBitList != 0:
		vAssert(refElemCode(w) == 1 && int64(refElemCount(w)) == int64(l.length), "C05.listraw.bit")
	default:
		vAssert(int64(refElemCount(w)) == int64(l.length), "C05.listraw.count")
	}
}

// Composite list targets on small concrete shapes: the list sits at byte 8 or 16 of segment 0 (tag
// word in front), the slot is word 0 of segment 0 or of segment 1; segment lengths, capacities,
// contents, element count and (nine) element sizes stay symbolic. All three placements (near, far
// with landing pad in the source segment, double-far) are reachable through the capacities.
func VH_C04_writeread_composite_small() { vWritereadComposite(vMaxSeg) }

// the same with segments of at most 256 bytes: every counterexample replays natively
func VH_C04_writeread_composite_tiny() { vWritereadComposite(256) }

func vWritereadComposite(maxSeg int) {
	msg, segs := vMsgRWMax(2, maxSeg)
	src := List{seg: segs[0], length: int32(vNondetU32()), depthLimit: maxDepth, flags: isCompositeList}
	src.size = vSmallSize()
	if vNondetBool() {
		src.off = 16
	} else {
		src.off = 24
	}
	vAssume(invList(src))
	tag := refLoad64(segs[0].data, int64(src.off)-8)
	vAssume(refKind(tag) == 0 && refOffsetWords(tag) == int64(src.length) && 8*refDataWords(tag) == uint64(src.size.DataSize) && refPtrWords(tag) == uint64(src.size.PointerCount))
	di := 0
	if vNondetBool() {
		di = 1
	}
	dst := segs[di]
	vAssume(segLen(dst) >= 8)
	err := dst.writePtr(0, src.ToPtr(), false)
	vReach("returned")
	if err != nil {
		return
	}
	vReach("ok")
	p, rerr := dst.readPtr(0, maxDepth)
	vAssert(rerr == nil, "C04.writeread.composite.readable")
	if rerr == nil {
		l := p.List()
		vAssert(p.flags.ptrType() == listPtrType && l.seg == src.seg && l.off == src.off && l.length == src.length && l.size == src.size && l.flags == src.flags, "C04.writeread.composite.same-object")
	}
	nseg := int(msg.NumSegments())
	vAssume(nseg <= 3)
	d := make([][]byte, nseg)
	for i := 0; i < nseg; i++ {
		s, e2 := msg.Segment(SegmentID(i))
		vAssume(e2 == nil)
		d[i] = s.data
	}
	ok, tsi, obj, desc := refResolve(d, di, 0)
	vAssert(ok, "C05.place.composite.resolvable")
	if ok {
		vAssert(tsi == 0 && obj == int64(src.off)-8, "C05.place.composite.designates-tag-word")
		vAssert(refKind(desc) == 1 && refElemCode(desc) == 7, "C05.place.composite.code")
		vAssert(8*int64(refElemCount(desc)) == int64(src.size.totalSize())*int64(src.length), "C05.place.composite.word-count")
	}
}

// NewCompositeList with any element size (data sizes that are not whole words included): the tag
// word, the stride used by the accessors and the storage actually claimed agree - the next object
// allocated starts after the last element, and writing every element leaves it untouched.
func VH_C05_new_composite_list() {
	_, seg := vMsgRW1()
	d := Size(vNondetU8())
	vAssume(d <= 24)
	p := uint16(vConc(int(vNondetU8()), 2))
	n := int32(vConc(int(vNondetU8()), 4))
	l, err := NewCompositeList(seg, ObjectSize{DataSize: d, PointerCount: p}, n)
	vReach("returned")
	if err != nil {
		return
	}
	vReach("ok")
	dw := (int64(d) + 7) / 8
	stride := 8 * (dw + int64(p))
	ls := l.seg
	tag := refLoad64(ls.data, int64(l.off)-8)
	vAssert(refKind(tag) == 0 && refOffsetWords(tag) == int64(n) && refDataWords(tag) == uint64(dw) && refPtrWords(tag) == uint64(p), "C05.newcomposite.tag")
	vAssert(int64(l.size.DataSize) == 8*dw && l.size.PointerCount == p, "C05.newcomposite.element-size-is-whole-words")
	end := int64(l.off) + int64(n)*stride
	vAssert(end <= segLen(ls), "C05.newcomposite.storage-claimed-for-every-element")
	if end > segLen(ls) {
		return
	}
	w := uint64(l.raw())
	vAssert(refKind(w) == 1 && refElemCode(w) == 7 && 8*int64(refElemCount(w)) == int64(n)*stride, "C05.newcomposite.pointer-word-count")
	// the next allocation does not overlap the list
	s2, addr, err := alloc(ls, 8)
	if err != nil {
		return
	}
	vAssert(s2 != ls || int64(addr) >= end, "C05.newcomposite.next-object-disjoint")
	if s2 == ls && n > 0 && stride > 0 {
		s2.writeUint64(addr, 0x1122334455667788)
		for i := 0; i < int(n); i++ {
			e := l.Struct(i)
			for k := int64(0); k < dw; k++ {
				e.SetUint64(DataOffset(8*k), ^uint64(0))
			}
		}
		vAssert(s2.readUint64(addr) == 0x1122334455667788, "C05.newcomposite.elements-do-not-reach-into-the-next-object")
	}
}

// newPrimitiveList for EVERY length and the four element sizes: either it refuses, or the storage it
// claimed holds all n elements (no wrap of n*size), the list's count is n, and its pointer word
// carries that count - a list that claims more elements than it owns overlaps its neighbours.
func VH_C05_new_primitive_list() {
	_, seg := vMsgRW1()
	n := int32(vNondetU32())
	sz := Size([4]int{1, 2, 4, 8}[vConc(int(vNondetU8()), 4)])
	oldLen := segLen(seg)
	// (the segment has room for what the list needs, computed without wrap-around: the arena's growth
	// path is decided by the alloc harnesses)
	vAssume(n < 0 || pad8(int64(n)*int64(sz)) <= int64(cap(seg.data))-oldLen || int64(n)*int64(sz) > 1<<32-8)
	l, err := newPrimitiveList(seg, sz, n)
	vReach("returned")
	if err != nil {
		return
	}
	vReach("ok")
	vAssert(l.seg == seg, "C05.newlist.placed-in-the-preferred-segment-when-it-fits")
	vAssert(n >= 0, "C05.newlist.negative-length-refused")
	if n < 0 {
		return
	}
	vAssert(int64(l.length) == int64(n) && l.size.DataSize == sz, "C05.newlist.count-and-element-size")
	need := int64(n) * int64(sz)
	vAssert(int64(l.off)+need <= segLen(l.seg), "C05.newlist.storage-claimed-for-every-element")
	if l.seg == seg {
		vAssert(int64(l.off) >= oldLen, "C05.newlist.disjoint-from-earlier-objects")
	}
	w := uint64(l.raw())
	vAssert(refKind(w) == 1 && int64(refElemCount(w)) == int64(n), "C05.newlist.pointer-word-carries-the-count")
}

// One Segment object per segment id, whatever order the segments are first looked at in: a second
// object for the same id would carry a stale length, and Marshal would write the segment with it.
func VH_C05_segment_identity() {
	msg, segs := vMsgRWMax(2, 256)
	order := vConc(int(vNondetU8()), 2)
	var a0, a1 *Segment
	var err error
	if order == 0 {
		a0, err = msg.Segment(0)
		vAssume(err == nil)
		a1, err = msg.Segment(1)
		vAssume(err == nil)
	} else {
		a1, err = msg.Segment(1)
		vAssume(err == nil)
		a0, err = msg.Segment(0)
		vAssume(err == nil)
	}
	vAssert(a0 == segs[0] && a1 == segs[1], "C05.segments.one-object-per-segment")
	// grow segment 0 through the object the caller holds, then look it up again
	before := segLen(a0)
	_, _, aerr := alloc(a0, 8)
	b0, err := msg.Segment(0)
	vAssert(err == nil && b0 == a0, "C05.segments.lookup-returns-the-same-object")
	if aerr == nil && err == nil {
		vAssert(segLen(b0) >= before, "C05.segments.length-not-stale")
	}
	nb, err := msg.Marshal()
	if err == nil && aerr == nil {
		// the segment table carries the current length of segment 0
		vAssert(refLoadN(nb, 4, 4) == uint64(segLen(a0)/8), "C05.segments.table-has-the-current-length")
	}
}

package capnp

// C01 Layer A, H-closure: every public read accessor, applied to ANY receiver that satisfies its
// representation invariant and any argument in the documented domain, performs only in-bounds
// reads (engine obligations), never panics, and returns values that satisfy their invariant.
// Together with H-establish this covers read-side call sequences of any length by induction.

const vMaxSeg = 1<<32 - 8

func vSeg() *Segment {
	n := vNondetInt()
	vAssume(n >= 0 && n <= vMaxSeg && n%8 == 0)
	_, seg := vMsg1(n)
	return seg
}

func VH_C01_closure_struct_data() {
	seg := vSeg()
	s := vStructIn(seg)
	off := DataOffset(vNondetU32())
	vAssume(off < 1<<19) // documented domain of DataOffset (addOffset panics beyond it)
	vReach("entry")
	_ = s.Uint8(off)
	_ = s.Uint16(off)
	_ = s.Uint32(off)
	_ = s.Uint64(off)
	_ = s.Bit(BitOffset(vNondetU32()))
	vReach("done")
}

func VH_C01_closure_struct_ptr() {
	seg := vSeg()
	s := vStructIn(seg)
	i := vNondetU16()
	vReach("entry")
	_ = s.HasPtr(i)
	p, err := s.Ptr(i)
	if err == nil {
		vReach("ok")
		vRegion("neglen_zero_size_composite", p.flags.ptrType() == listPtrType && p.List().flags&isCompositeList != 0 && p.size.DataSize == 0 && p.size.PointerCount == 0 && int32(p.lenOrCap) < 0)
		vAssert(invPtr(p), "C01.closure.structptr.inv")
	}
}

func VH_C01_closure_list_struct() {
	seg := vSeg()
	l := vListIn(seg)
	i := vNondetInt()
	vAssume(i >= 0 && i < l.Len())
	vReach("entry")
	s := l.Struct(i)
	vAssert(invStruct(s), "C01.closure.liststruct.inv")
	vReach("done")
}

func VH_C01_closure_list_prim() {
	seg := vSeg()
	l := vListIn(seg)
	i := vNondetInt()
	vAssume(i >= 0 && i < l.Len())
	vReach("entry")
	switch vNondetU8() {
	case 0:
		_ = UInt8List{l}.At(i)
	case 1:
		_ = UInt16List{l}.At(i)
	case 2:
		_ = UInt32List{l}.At(i)
	case 3:
		_ = UInt64List{l}.At(i)
	case 4:
		_ = Int8List{l}.At(i)
	case 5:
		_ = Int16List{l}.At(i)
	case 6:
		_ = Int32List{l}.At(i)
	case 7:
		_ = Int64List{l}.At(i)
	case 8:
		_ = Float32List{l}.At(i)
	case 9:
		_ = Float64List{l}.At(i)
	default:
		vRegion("bitlist_index_ge_2p22", i >= 1<<22)
		_ = BitList{l}.At(i)
	}
	vReach("done")
}

func VH_C01_closure_list_ptr() {
	seg := vSeg()
	l := vListIn(seg)
	i := vNondetInt()
	vAssume(i >= 0 && i < l.Len())
	vReach("entry")
	p, err := PointerList{l}.At(i)
	if err == nil {
		vReach("ok")
		vRegion("neglen_zero_size_composite", p.flags.ptrType() == listPtrType && p.List().flags&isCompositeList != 0 && p.size.DataSize == 0 && p.size.PointerCount == 0 && int32(p.lenOrCap) < 0)
		vAssert(invPtr(p), "C01.closure.listptr.inv")
	}
}

func VH_C01_closure_list_textdata() {
	seg := vSeg()
	l := vListIn(seg)
	i := vNondetInt()
	vAssume(i >= 0 && i < l.Len())
	vReach("entry")
	switch vNondetU8() {
	case 0:
		b, err := TextList{l}.BytesAt(i)
		if err == nil && b != nil {
			vReach("text")
			vAssert(vWithin(b, seg.data), "C01.closure.text.within")
		}
	default:
		b, err := DataList{l}.At(i)
		if err == nil && b != nil {
			vReach("data")
			vAssert(vWithin(b, seg.data), "C01.closure.data.within")
		}
	}
}

// Ptr-level accessors on any pointer satisfying its invariant.
func VH_C01_closure_ptr_textdata() {
	seg := vSeg()
	l := vListIn(seg)
	p := l.ToPtr()
	vReach("entry")
	if b := p.TextBytes(); b != nil {
		vReach("text")
		vAssert(vWithin(b, seg.data), "C01.closure.ptrtext.within")
	}
	if b := p.Data(); b != nil {
		vReach("data")
		vAssert(vWithin(b, seg.data), "C01.closure.ptrdata.within")
	}
	_ = p.Struct()
	_ = p.Interface()
	l2 := p.List()
	vAssert(invList(l2), "C01.closure.ptrlist.inv")
}

func VH_C01_closure_ptr_conv() {
	seg := vSeg()
	s := vStructIn(seg)
	p := s.ToPtr()
	vReach("entry")
	s2 := p.Struct()
	vAssert(invStruct(s2), "C01.closure.ptrstruct.inv")
	vAssert(s2.seg == s.seg && s2.off == s.off && s2.size == s.size, "C01.closure.ptrstruct.same")
	_ = p.List()
	_ = p.Text()
	_ = p.Data()
	_ = p.Interface().Client()
}

func VH_C01_closure_interface() {
	seg := vSeg()
	k := int(vNondetU8())
	vAssume(k <= 3)
	seg.msg.CapTable = make([]*Client, k)
	in := Interface{seg: seg, cap: CapabilityID(vNondetU32())}
	vReach("entry")
	c := in.Client()
	vAssert(c == nil, "C01.closure.interface.nil")
	_ = in.ToPtr().Interface().Client()
}

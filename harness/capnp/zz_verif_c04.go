package capnp

// C04 (write/read-back, frame, allocation) and C05 (spec conformance of what is written).
// One-step lemmas over arbitrary arena states; the C03 reference decoder is the independent reader.

// vMsgRW builds a k-segment writable message: every segment has symbolic len <= cap, both
// word-aligned, contents (including spare capacity) symbolic.
func vMsgRW(k int) (*Message, []*Segment) { return vMsgRWMax(k, vMaxSeg) }

// vMsgRWMax: k segments of arbitrary length and capacity up to max bytes, arbitrary contents
func vMsgRWMax(k int, max int) (*Message, []*Segment) {
	bufs := make([][]byte, k)
	for i := 0; i < k; i++ {
		n := vNondetInt()
		c := vNondetInt()
		vAssume(n >= 0 && n <= c && c <= max && n%8 == 0 && c%8 == 0)
		bufs[i] = vNondetBytesCap(n, c)
	}
	msg := &Message{Arena: MultiSegment(bufs)}
	msg.ResetReadLimit(1 << 62)
	segs := make([]*Segment, k)
	for i := 0; i < k; i++ {
		s, err := msg.Segment(SegmentID(i))
		vAssume(err == nil)
		segs[i] = s
	}
	return msg, segs
}

func vMsgRW1() (*Message, *Segment) {
	n := vNondetInt()
	c := vNondetInt()
	vAssume(n >= 0 && n <= c && c <= vMaxSeg && n%8 == 0 && c%8 == 0)
	msg := &Message{Arena: SingleSegment(vNondetBytesCap(n, c))}
	msg.ResetReadLimit(1 << 62)
	s, err := msg.Segment(0)
	vAssume(err == nil)
	return msg, s
}

func pad8(x int64) int64 { return (x + 7) &^ 7 }

// ---- H-setget: a data setter stores exactly the value, and nothing else changes ----
func VH_C04_setget() {
	_, seg := vMsgRW1()
	s := vStructIn(seg)
	vAssume(s.flags&isListMember == 0)
	off := int64(vNondetU32())
	vAssume(off < 1<<19)
	j := vNondetInt()
	vAssume(j >= 0 && int64(j) < segLen(seg))
	old := seg.data[j]
	base := int64(s.off) + off
	var w int64
	vReach("entry")
	switch vNondetU8() {
	case 0:
		w = 1
		vAssume(off+w <= int64(s.size.DataSize))
		v := vNondetU8()
		s.SetUint8(DataOffset(off), v)
		vAssert(s.Uint8(DataOffset(off)) == v, "C04.setget.u8")
	case 1:
		w = 2
		vAssume(off+w <= int64(s.size.DataSize))
		v := vNondetU16()
		s.SetUint16(DataOffset(off), v)
		vAssert(s.Uint16(DataOffset(off)) == v, "C04.setget.u16")
		vAssert(refLoadN(seg.data, base, 2) == uint64(v), "C05.setget.u16.little-endian")
	case 2:
		w = 4
		vAssume(off+w <= int64(s.size.DataSize))
		v := vNondetU32()
		s.SetUint32(DataOffset(off), v)
		vAssert(s.Uint32(DataOffset(off)) == v, "C04.setget.u32")
		vAssert(refLoadN(seg.data, base, 4) == uint64(v), "C05.setget.u32.little-endian")
	case 3:
		w = 8
		vAssume(off+w <= int64(s.size.DataSize))
		v := vNondetU64()
		s.SetUint64(DataOffset(off), v)
		vAssert(s.Uint64(DataOffset(off)) == v, "C04.setget.u64")
		vAssert(refLoadN(seg.data, base, 8) == v, "C05.setget.u64.little-endian")
	default:
		bit := int64(vNondetU32())
		vAssume(bit < 8*int64(s.size.DataSize))
		v := vNondetBool()
		base = int64(s.off) + bit/8
		w = 1
		before := seg.data[base]
		s.SetBit(BitOffset(bit), v)
		vAssert(s.Bit(BitOffset(bit)) == v, "C04.setget.bit")
		// the other seven bits of the byte are untouched
		m := byte(1) << (uint(bit) % 8)
		vAssert(seg.data[base]&^m == before&^m, "C04.setget.bit.frame-in-byte")
	}
	if int64(j) < base || int64(j) >= base+w {
		vAssert(seg.data[j] == old, "C04.setget.frame")
	}
}

// ---- H-nextalloc: growth policy arithmetic ----
func vNextAlloc(limit int64) {
	curr := int64(vNondetInt())
	max := int64(vNondetInt())
	req := Size(vNondetU32())
	vAssume(curr >= 0 && curr <= limit && max >= 0)
	n, err := nextAlloc(curr, max, req)
	vReach("returned")
	if err == nil && req != 0 {
		vReach("ok")
		// n >= req together with n%8 == 0 gives n >= pad8(req)
		vAssert(int64(n) >= int64(req), "C04.nextalloc.at-least-request")
		vAssert(n%8 == 0 && n > 0, "C04.nextalloc.word-multiple")
		vAssert(curr+pad8(int64(req)) <= max, "C04.nextalloc.respects-max")
	}
}

// current size up to 2^33 (every single- or two-segment arena); the full-width twin is thorough-only
func VH_C04_nextalloc()      { vNextAlloc(1 << 33) }
func VH_C04_nextalloc_full() { vNextAlloc(1 << 62) }

// ---- H-alloc: fresh storage is appended, zeroed, disjoint from everything allocated before ----
func VH_C04_alloc_fits() {
	_, seg := vMsgRW1()
	sz := Size(vNondetU32())
	oldLen := segLen(seg)
	oldCap := int64(cap(seg.data))
	j := vNondetInt()
	vAssume(j >= 0 && int64(j) < oldLen)
	old := seg.data[j]
	vAssume(pad8(int64(sz)) <= oldCap-oldLen) // enough spare capacity: no arena call
	s2, addr, err := alloc(seg, sz)
	vReach("returned")
	vAssert(err == nil, "C04.alloc.fits.succeeds")
	if err == nil {
		vAssert(s2 == seg, "C04.alloc.fits.same-segment")
		vAssert(int64(addr) == oldLen, "C04.alloc.fits.appended-at-old-end")
		vAssert(segLen(seg) == oldLen+pad8(int64(sz)), "C04.alloc.fits.length-grows-by-padded-size")
		vAssert(segLen(seg)%8 == 0 && segLen(seg) <= oldCap, "C05.alloc.word-aligned")
		vAssert(seg.data[j] == old, "C04.alloc.fits.frame")
		if sz > 0 {
			k := vNondetInt()
			vAssume(int64(k) >= oldLen && int64(k) < segLen(seg))
			vAssert(seg.data[k] == 0, "C05.alloc.zeroed")
		}
	}
}

// single-segment arena must grow: old content preserved, new space zeroed
func VH_C04_alloc_grow_single() {
	msg, seg := vMsgRW1()
	sz := Size(vNondetU32())
	vAssume(sz > 0 && uint64(sz) <= 1<<20)
	oldLen := segLen(seg)
	oldCap := int64(cap(seg.data))
	vAssume(pad8(int64(sz)) > oldCap-oldLen)
	j := vNondetInt()
	vAssume(j >= 0 && int64(j) < oldLen)
	old := seg.data[j]
	s2, addr, err := alloc(seg, sz)
	vReach("returned")
	if err == nil {
		vReach("ok")
		vAssert(s2.msg == msg && s2.id == 0, "C04.alloc.grow.segment0")
		vAssert(int64(addr) == oldLen, "C04.alloc.grow.appended-at-old-end")
		vAssert(segLen(s2) == oldLen+pad8(int64(sz)), "C04.alloc.grow.length")
		vAssert(s2.data[j] == old, "C04.alloc.grow.old-content-preserved")
		k := vNondetInt()
		vAssume(int64(k) >= oldLen && int64(k) < segLen(s2))
		vAssert(s2.data[k] == 0, "C05.alloc.grow.zeroed")
	}
}

// multi-segment arena: when no segment has room a new segment is created
func VH_C04_alloc_multi() {
	msg, segs := vMsgRW(2)
	a, b := segs[0], segs[1]
	sz := Size(vNondetU32())
	vAssume(sz > 0 && uint64(sz) <= 1<<20)
	la, lb := segLen(a), segLen(b)
	j := vNondetInt()
	vAssume(j >= 0 && int64(j) < la)
	old := a.data[j]
	s2, addr, err := alloc(a, sz)
	vReach("returned")
	if err == nil {
		vReach("ok")
		vAssert(s2.msg == msg, "C04.alloc.multi.same-message")
		vAssert(int64(addr)+pad8(int64(sz)) == segLen(s2), "C04.alloc.multi.at-end")
		vAssert(int64(addr)%8 == 0, "C05.alloc.multi.word-aligned")
		if s2 == a {
			vAssert(int64(addr) == la, "C04.alloc.multi.appended-a")
		} else if s2 == b {
			vAssert(int64(addr) == lb, "C04.alloc.multi.appended-b")
		} else {
			vAssert(s2.id == 2 && addr == 0, "C04.alloc.multi.new-segment")
		}
		vAssert(a.data[j] == old, "C04.alloc.multi.frame")
		k := vNondetInt()
		vAssume(int64(k) >= int64(addr) && int64(k) < segLen(s2))
		vAssert(s2.data[k] == 0, "C05.alloc.multi.zeroed")
	}
}

// a caller-supplied buffer whose CAPACITY is not a whole number of words (1..7 spare bytes at the
// end): allocation never panics; the object lies inside the segment it is said to be in, padded to
// words and zeroed, old content kept
func VH_C04_alloc_odd_capacity() {
	n := vNondetInt()
	c := vNondetInt()
	vAssume(n >= 0 && n <= c && c <= 1<<20 && n%8 == 0)
	msg := &Message{Arena: SingleSegment(vNondetBytesCap(n, c))}
	if vNondetBool() {
		msg = &Message{Arena: MultiSegment([][]byte{vNondetBytesCap(n, c)})}
	}
	msg.ResetReadLimit(1 << 62)
	seg, err := msg.Segment(0)
	vAssume(err == nil)
	sz := Size(vNondetU32())
	vAssume(sz > 0 && uint64(sz) <= 64)
	oldLen := segLen(seg)
	j := vNondetInt()
	vAssume(j >= 0 && int64(j) < oldLen)
	old := seg.data[j]
	vReach("entry")
	s2, addr, err := alloc(seg, sz)
	vReach("returned")
	if err != nil {
		return
	}
	vAssert(int64(addr)%8 == 0 && int64(addr)+pad8(int64(sz)) <= segLen(s2), "C04.alloc.odd.object-inside-its-segment")
	if int64(addr)+pad8(int64(sz)) > segLen(s2) {
		return
	}
	if s2 == seg || s2.id == 0 {
		vAssert(int64(addr) >= oldLen, "C04.alloc.odd.disjoint-from-old-content")
		vAssert(s2.data[j] == old, "C04.alloc.odd.old-content-kept")
	}
	k := vNondetInt()
	vAssume(int64(k) >= int64(addr) && int64(k) < int64(addr)+pad8(int64(sz)))
	vAssert(s2.data[k] == 0, "C05.alloc.odd.zeroed-including-padding")
}

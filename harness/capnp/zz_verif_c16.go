package capnp

import "context"

// C16: deep copy. Small concrete shapes built with the builder API, symbolic contents; destinations
// in a second message with single- or multi-segment arenas.

func vDstMsg() (*Message, *Segment) {
	if vNondetBool() {
		return vNewMsg()
	}
	// a multi-segment arena whose segments are small, so copies spread over segments
	msg := &Message{Arena: MultiSegment([][]byte{make([]byte, 0, 16), make([]byte, 0, 24), make([]byte, 0, 64)})}
	seg, err := msg.Segment(0)
	vAssume(err == nil)
	_, _, err = alloc(seg, 8)
	vAssume(err == nil)
	return msg, seg
}

// struct with data and one Data field, copied into another message as the root
func VH_C16_copy_struct() {
	_, sa := vNewMsg()
	D := vConc(int(vNondetU8()), 3)
	src, err := NewRootStruct(sa, ObjectSize{DataSize: Size(8 * D), PointerCount: 1})
	vAssume(err == nil)
	var w [2]uint64
	for i := 0; i < D; i++ {
		w[i] = vNondetU64()
		src.SetUint64(DataOffset(8*i), w[i])
	}
	n := vConc(int(vNondetU8()), 4)
	payload := vNondetBytes(n)
	if n > 0 {
		vAssume(src.SetData(0, payload) == nil)
	}
	mb, _ := vDstMsg()
	err = mb.SetRoot(src.ToPtr())
	vReach("copied")
	vAssert(err == nil, "C16.copy.struct.no-error")
	if err != nil {
		return
	}
	rp, err := mb.Root()
	vAssert(err == nil && rp.flags.ptrType() == structPtrType, "C16.copy.struct.readable")
	if err != nil {
		return
	}
	dst := rp.Struct()
	vAssert(dst.seg.msg == mb, "C16.copy.struct.lives-in-destination")
	for i := 0; i < D; i++ {
		vAssert(dst.Uint64(DataOffset(8*i)) == w[i], "C16.copy.struct.data-equal")
	}
	dp, err := dst.Ptr(0)
	vAssert(err == nil, "C16.copy.struct.pointer-readable")
	if err == nil {
		got := dp.Data()
		vAssert(len(got) == n, "C16.copy.struct.list-length")
		if len(got) == n {
			for k := 0; k < n; k++ {
				vAssert(got[k] == payload[k], "C16.copy.struct.list-bytes")
			}
			if n > 0 {
				vAssert(dp.seg.msg == mb, "C16.copy.list.lives-in-destination")
			}
		}
	}
	eq, err := Equal(src.ToPtr(), dst.ToPtr())
	vAssert(err == nil && eq, "C16.copy.struct.equal-to-source")
	// independence: later changes to either side do not show through
	if D > 0 {
		src.SetUint64(0, ^w[0])
		vAssert(dst.Uint64(0) == w[0], "C16.copy.independent.source-mutation")
		dst.SetUint64(0, w[0]+1)
		vAssert(src.Uint64(0) == ^w[0], "C16.copy.independent.destination-mutation")
	}
	if n > 0 {
		sp, _ := src.Ptr(0)
		sp.Data()[0] ^= 0xff
		dp2, _ := dst.Ptr(0)
		vAssert(dp2.Data()[0] == payload[0], "C16.copy.independent.list-mutation")
	}
}

// CopyFrom into a struct of a different version: truncated / zero-extended
func VH_C16_copy_version_skew() {
	_, sa := vNewMsg()
	Ds := vConc(int(vNondetU8()), 3)
	Ps := vConc(int(vNondetU8()), 2)
	src, err := NewStruct(sa, ObjectSize{DataSize: Size(8 * Ds), PointerCount: uint16(Ps)})
	vAssume(err == nil)
	var w [2]uint64
	for i := 0; i < Ds; i++ {
		w[i] = vNondetU64()
		src.SetUint64(DataOffset(8*i), w[i])
	}
	payload := vNondetBytes(2)
	if Ps > 0 {
		vAssume(src.SetData(0, payload) == nil)
	}
	_, sb := vNewMsg()
	Dd := vConc(int(vNondetU8()), 3)
	Pd := vConc(int(vNondetU8()), 3)
	dst, err := NewStruct(sb, ObjectSize{DataSize: Size(8 * Dd), PointerCount: uint16(Pd)})
	vAssume(err == nil)
	// destination initially holds garbage
	for i := 0; i < Dd; i++ {
		dst.SetUint64(DataOffset(8*i), vNondetU64())
	}
	for i := 0; i < Pd; i++ {
		sb.writeRawPointer(dst.pointerAddress(uint16(i)), rawPointer(rawInterfacePointer(CapabilityID(7))))
	}
	err = dst.CopyFrom(src)
	vReach("copied")
	vAssert(err == nil, "C16.skew.no-error")
	if err != nil {
		return
	}
	for i := 0; i < Dd; i++ {
		want := uint64(0)
		if i < Ds {
			want = w[i]
		}
		vAssert(dst.Uint64(DataOffset(8*i)) == want, "C16.skew.data-truncated-or-zero-extended")
	}
	for i := 0; i < Pd; i++ {
		p, err := dst.Ptr(uint16(i))
		vAssert(err == nil, "C16.skew.pointer-readable")
		if err != nil {
			continue
		}
		if i < Ps && i == 0 {
			d := p.Data()
			vAssert(len(d) == 2 && d[0] == payload[0] && d[1] == payload[1], "C16.skew.pointer-copied")
		} else {
			vAssert(!p.IsValid(), "C16.skew.extra-pointers-nulled")
		}
	}
}

// a struct that is an element of a primitive list (list upgrade view) assigned to a pointer field
func VH_C16_copy_list_member() {
	_, sa := vNewMsg()
	kind := vConc(int(vNondetU8()), 4)
	var l List
	var err error
	switch kind {
	case 0:
		x, e := NewUInt8List(sa, 2)
		l, err = x.List, e
	case 1:
		x, e := NewUInt16List(sa, 2)
		l, err = x.List, e
	case 2:
		x, e := NewUInt32List(sa, 2)
		l, err = x.List, e
	default:
		x, e := NewUInt64List(sa, 2)
		l, err = x.List, e
	}
	vAssume(err == nil)
	v := vNondetU64()
	w := int(l.size.DataSize)
	for j := 0; j < w; j++ {
		sa.data[int(l.off)+w+j] = byte(v >> (8 * uint(j)))
	}
	elem := l.Struct(1)
	vRegion("member_of_subword_list", w < 8)
	sb := sa
	sameMsg := vConc(int(vNondetU8()), 2) == 1
	if !sameMsg {
		_, sb = vNewMsg()
	}
	holder, err := NewRootStruct(sb, ObjectSize{PointerCount: 1})
	vAssume(err == nil)
	err = holder.SetPtr(0, elem.ToPtr())
	vReach("copied")
	vAssert(err == nil, "C16.member.no-error")
	if err != nil {
		return
	}
	p, err := holder.Ptr(0)
	vAssert(err == nil && p.flags.ptrType() == structPtrType, "C16.member.readable")
	if err == nil {
		s := p.Struct()
		mask := ^uint64(0)
		if w < 8 {
			mask = 1<<(8*uint(w)) - 1
		}
		vAssert(s.Uint64(0)&mask == v&mask, "C16.member.value-preserved")
		// the field holds a COPY (a list member cannot be pointed at): writing the list element
		// afterwards does not show through, in the same message either
		for j := 0; j < w; j++ {
			sa.data[int(l.off)+w+j] ^= 0xff
		}
		vAssert(s.Uint64(0)&mask == v&mask, "C16.member.copy-is-independent-of-the-list")
	}
}

// capability pointers are re-homed: a new entry in the destination's table
func VH_C16_copy_capability() {
	ma, sa := vNewMsg()
	ma.CapTable = []*Client{nil, nil}
	src, err := NewRootStruct(sa, ObjectSize{PointerCount: 1})
	vAssume(err == nil)
	// indexes 0, 1 are in the table; 2 (== len) and 3 are not: they copy as a null entry
	ci := CapabilityID(vConc(int(vNondetU8()), 4))
	vAssume(src.SetPtr(0, NewInterface(sa, ci).ToPtr()) == nil)
	mb, _ := vNewMsg()
	k := vConc(int(vNondetU8()), 3)
	mb.CapTable = make([]*Client, k)
	err = mb.SetRoot(src.ToPtr())
	vReach("copied")
	vAssert(err == nil, "C16.cap.no-error")
	if err != nil {
		return
	}
	vAssert(len(mb.CapTable) == k+1, "C16.cap.new-table-entry")
	vAssert(len(ma.CapTable) == 2, "C16.cap.source-table-untouched")
	rp, err := mb.Root()
	vAssume(err == nil)
	p, err := rp.Struct().Ptr(0)
	vAssert(err == nil && p.flags.ptrType() == interfacePtrType && int(p.Interface().Capability()) == k, "C16.cap.index-is-new-entry")
}

// copies inside ONE message (Struct.CopyFrom / List.SetStruct) are deep too: the copy's list does
// not alias the source's list
func VH_C16_copy_same_message() {
	_, seg := vNewMsg()
	src, err := NewStruct(seg, ObjectSize{DataSize: 8, PointerCount: 1})
	vAssume(err == nil)
	payload := vNondetBytes(2)
	vAssume(src.SetData(0, payload) == nil)
	viaList := vNondetBool()
	var dst Struct
	if viaList {
		l, err := NewCompositeList(seg, ObjectSize{DataSize: 8, PointerCount: 1}, 1)
		vAssume(err == nil)
		vAssume(l.SetStruct(0, src) == nil)
		dst = l.Struct(0)
	} else {
		dst, err = NewStruct(seg, ObjectSize{DataSize: 8, PointerCount: 1})
		vAssume(err == nil)
		vAssume(dst.CopyFrom(src) == nil)
	}
	vReach("copied")
	sp, e1 := src.Ptr(0)
	dp, e2 := dst.Ptr(0)
	vAssert(e1 == nil && e2 == nil, "C16.same.readable")
	if e1 != nil || e2 != nil {
		return
	}
	vAssert(len(dp.Data()) == 2 && dp.Data()[0] == payload[0] && dp.Data()[1] == payload[1], "C16.same.list-copied")
	vAssert(!vSameArray(sp.Data(), dp.Data()) || sp.off != dp.off, "C16.same.list-storage-distinct")
	sp.Data()[0] ^= 0xff
	dp2, _ := dst.Ptr(0)
	vAssert(dp2.Data()[0] == payload[0], "C16.same.independent-of-source-mutation")
}

// List.SetStruct into a populated element of a struct list of a different version: the element
// becomes the source truncated / zero-extended (a zero-sized source clears it); the neighbouring
// element is untouched.
func VH_C16_setstruct_skew() {
	_, sa := vNewMsg()
	Ds := vConc(int(vNondetU8()), 3)
	Ps := vConc(int(vNondetU8()), 2)
	src, err := NewStruct(sa, ObjectSize{DataSize: Size(8 * Ds), PointerCount: uint16(Ps)})
	vAssume(err == nil)
	var w [2]uint64
	for i := 0; i < Ds; i++ {
		w[i] = vNondetU64()
		src.SetUint64(DataOffset(8*i), w[i])
	}
	payload := vNondetBytes(2)
	if Ps > 0 {
		vAssume(src.SetData(0, payload) == nil)
	}
	sb := sa
	if vConc(int(vNondetU8()), 2) == 1 {
		_, sb = vNewMsg()
	}
	Dd := 1 + vConc(int(vNondetU8()), 2)
	Pd := vConc(int(vNondetU8()), 2)
	l, err := NewCompositeList(sb, ObjectSize{DataSize: Size(8 * Dd), PointerCount: uint16(Pd)}, 2)
	vAssume(err == nil)
	var g [2][2]uint64
	for e := 0; e < 2; e++ {
		for i := 0; i < Dd; i++ {
			g[e][i] = vNondetU64()
			l.Struct(e).SetUint64(DataOffset(8*i), g[e][i])
		}
		if Pd > 0 {
			vAssume(l.Struct(e).SetData(0, []byte{9, 9, 9}) == nil)
		}
	}
	k := vConc(int(vNondetU8()), 2) // concrete per path (a merged 0/1 makes every address symbolic)
	err = l.SetStruct(k, src)
	vReach("set")
	vAssert(err == nil, "C16.setstruct.no-error")
	if err != nil {
		return
	}
	el, other := l.Struct(k), l.Struct(1-k)
	for i := 0; i < Dd; i++ {
		want := uint64(0)
		if i < Ds {
			want = w[i]
		}
		vAssert(el.Uint64(DataOffset(8*i)) == want, "C16.setstruct.data-truncated-or-zero-extended")
		vAssert(other.Uint64(DataOffset(8*i)) == g[1-k][i], "C16.setstruct.neighbour-untouched")
	}
	if Pd > 0 {
		p, err := el.Ptr(0)
		vAssert(err == nil, "C16.setstruct.pointer-readable")
		if err == nil {
			if Ps > 0 {
				d := p.Data()
				vAssert(len(d) == 2 && d[0] == payload[0] && d[1] == payload[1], "C16.setstruct.pointer-copied")
			} else {
				vAssert(!p.IsValid(), "C16.setstruct.extra-pointers-nulled")
			}
		}
		q, err := other.Ptr(0)
		vAssert(err == nil && len(q.Data()) == 3, "C16.setstruct.neighbour-pointer-untouched")
	}
}

// a copied capability pointer holds its own reference: releasing the source message leaves the
// capability alive and callable through the copy; releasing the copy's message too shuts it down
// exactly once. The source entry is a plain client or a promised client that was fulfilled and has
// not been touched since.
func VH_C16_copy_capability_refs() {
	th := &vHook{}
	target := NewClient(th)
	var entry *Client
	promised := vConc(int(vNondetU8()), 2) == 1
	if promised {
		c, cp := NewPromisedClient(&vHook{})
		cp.Fulfill(target)
		target.Release() // the resolved promise now holds the only reference
		entry = c
	} else {
		entry = target
	}
	ma, sa := vNewMsg()
	src, err := NewRootStruct(sa, ObjectSize{PointerCount: 1})
	vAssume(err == nil)
	vAssume(src.SetPtr(0, NewInterface(sa, ma.AddCap(entry)).ToPtr()) == nil)
	mb, _ := vNewMsg()
	err = mb.SetRoot(src.ToPtr())
	vReach("copied")
	vAssert(err == nil && len(mb.CapTable) == 1, "C16.capref.copied")
	if err != nil || len(mb.CapTable) != 1 {
		return
	}
	vAssert(th.shutdowns == 0, "C16.capref.alive-after-copy")
	ma.Reset(nil) // the source message goes away
	vAssert(th.shutdowns == 0, "C16.capref.copy-holds-its-own-reference")
	rp, err := mb.Root()
	vAssume(err == nil)
	p, err := rp.Struct().Ptr(0)
	vAssume(err == nil)
	_, rel := p.Interface().Client().SendCall(context.Background(), Send{})
	rel()
	vAssert(th.sends == 1, "C16.capref.copy-reaches-the-capability")
	mb.Reset(nil)
	vReach("released")
	vAssert(th.shutdowns == 1, "C16.capref.shut-down-exactly-once-when-both-are-gone")
	vAssert(vLocksHeld() == 0, "C16.capref.no-lock-held")
}

// bit lists of every length around the word boundaries copied into another message: exactly the
// source's bits arrive, and nothing of whatever follows the list in the source segment
func VH_C16_copy_bit_list() {
	n := []int32{0, 1, 63, 64, 65, 128}[vConc(int(vNondetU8()), 6)]
	_, sa := vNewMsg()
	src, err := NewRootStruct(sa, ObjectSize{PointerCount: 1})
	vAssume(err == nil)
	bl, err := NewBitList(sa, n)
	vAssume(err == nil)
	i := 0
	if n > 0 {
		i = vNondetInt()
		vAssume(i >= 0 && i < int(n))
		bl.Set(i, true)
	}
	// the object right behind the list in the source
	marker, err := NewUInt64List(sa, 1)
	vAssume(err == nil)
	marker.Set(0, ^uint64(0))
	vAssume(src.SetPtr(0, bl.ToPtr()) == nil)
	mb, sb := vNewMsg()
	vAssume(mb.SetRoot(src.ToPtr()) == nil)
	vReach("copied")
	used := segLen(sb)
	want := int64(8 + 8 + 8*((int64(n)+63)/64)) // root pointer, struct, list words
	vAssert(used == want, "C16.bitlist.copy-takes-exactly-the-list-words")
	rp, err := mb.Root()
	vAssume(err == nil)
	p, err := rp.Struct().Ptr(0)
	vAssert(err == nil && p.List().Len() == int(n), "C16.bitlist.length")
	if err == nil && n > 0 && p.List().Len() == int(n) {
		j := vNondetInt()
		vAssume(j >= 0 && j < int(n))
		vAssert(BitList{p.List()}.At(j) == (j == i), "C16.bitlist.bits")
	}
}

// a struct list viewed as a pointer list (the first pointer of every element): Set writes the
// element's pointer FIELD - its data words stay what they were - and At reads it back
func VH_C16_pointer_view_of_struct_list() {
	_, seg := vNewMsg()
	l, err := NewCompositeList(seg, ObjectSize{DataSize: 8, PointerCount: 1}, 2)
	vAssume(err == nil)
	var w [2]uint64
	for i := 0; i < 2; i++ {
		w[i] = vNondetU64()
		l.Struct(i).SetUint64(0, w[i])
	}
	k := vConc(int(vNondetU8()), 2)
	b := vNondetU8()
	d, err := NewData(seg, []byte{b})
	vAssume(err == nil)
	err = PointerList{l}.Set(k, d.ToPtr())
	vReach("set")
	vAssert(err == nil, "C16.ptrview.set-ok")
	if err != nil {
		return
	}
	for i := 0; i < 2; i++ {
		vAssert(l.Struct(i).Uint64(0) == w[i], "C16.ptrview.data-words-untouched")
	}
	p, err := l.Struct(k).Ptr(0)
	vAssert(err == nil && len(p.Data()) == 1 && p.Data()[0] == b, "C16.ptrview.pointer-field-holds-the-value")
	q, err := PointerList{l}.At(k)
	vAssert(err == nil && len(q.Data()) == 1 && q.Data()[0] == b, "C16.ptrview.reads-back")
	o, err := l.Struct(1 - k).Ptr(0)
	vAssert(err == nil && !o.IsValid(), "C16.ptrview.other-element-untouched")
}

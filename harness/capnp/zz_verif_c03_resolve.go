package capnp

// C03 H-resolve / H-field / H-elem: the reader's results equal what the encoding spec says the bytes
// denote. The reference side reads bytes by plain indexing and uses int64/uint64 arithmetic only.

func refLoad64(b []byte, at int64) uint64 {
	return uint64(b[at]) | uint64(b[at+1])<<8 | uint64(b[at+2])<<16 | uint64(b[at+3])<<24 |
		uint64(b[at+4])<<32 | uint64(b[at+5])<<40 | uint64(b[at+6])<<48 | uint64(b[at+7])<<56
}

func refLoadN(b []byte, at int64, n int) uint64 {
	var v uint64
	for i := 0; i < n; i++ {
		v |= uint64(b[at+int64(i)]) << (8 * uint(i))
	}
	return v
}

// bytes per element for non-composite element-size codes (bit lists handled separately)
func refElemBytes(code uint64) int64 {
	switch code {
	case 2:
		return 1
	case 3:
		return 2
	case 4:
		return 4
	case 5, 6:
		return 8
	}
	return 0
}

func vBigBudget(msg *Message) { msg.ResetReadLimit(1 << 62) }

// near struct pointer in a single segment: acceptance and result are exactly the spec's
func VH_C03_resolve_struct() {
	n := vNondetInt()
	vAssume(n >= 8 && n <= vMaxSeg && n%8 == 0)
	msg, seg := vMsg1(n)
	vBigBudget(msg)
	paddr := int64(vNondetU32())
	vAssume(paddr%8 == 0 && paddr+8 <= int64(n))
	w := refLoad64(seg.data, paddr)
	vAssume(refKind(w) == 0 && w != 0)
	tgt := paddr + 8 + 8*refOffsetWords(w)
	dw, pw := int64(refDataWords(w)), int64(refPtrWords(w))
	valid := tgt >= 0 && tgt+8*(dw+pw) <= int64(n)
	d := uint(vNondetU64())
	vAssume(d > 0)
	p, err := seg.readPtr(address(paddr), d)
	vReach("returned")
	if valid {
		vReach("valid")
		vAssert(err == nil, "C03.resolve.struct.accepts-valid")
		if err == nil {
			vAssert(p.flags.ptrType() == structPtrType && p.seg == seg, "C03.resolve.struct.kind")
			vAssert(int64(p.off) == tgt, "C03.resolve.struct.address")
			vAssert(int64(p.size.DataSize) == 8*dw && int64(p.size.PointerCount) == pw, "C03.resolve.struct.size")
		}
	} else {
		vReach("invalid")
		vAssert(err != nil, "C03.resolve.struct.rejects-out-of-bounds")
	}
}

// near list pointer, non-composite
func VH_C03_resolve_list() {
	n := vNondetInt()
	vAssume(n >= 8 && n <= vMaxSeg && n%8 == 0)
	msg, seg := vMsg1(n)
	vBigBudget(msg)
	paddr := int64(vNondetU32())
	vAssume(paddr%8 == 0 && paddr+8 <= int64(n))
	w := refLoad64(seg.data, paddr)
	code := refElemCode(w)
	vAssume(refKind(w) == 1 && code != 7)
	tgt := paddr + 8 + 8*refOffsetWords(w)
	cnt := int64(refElemCount(w))
	var bytes int64
	if code == 1 {
		bytes = (cnt + 7) / 8
	} else {
		bytes = cnt * refElemBytes(code)
	}
	valid := tgt >= 0 && tgt+bytes <= int64(n)
	d := uint(vNondetU64())
	vAssume(d > 0)
	p, err := seg.readPtr(address(paddr), d)
	vReach("returned")
	if valid {
		vReach("valid")
		vAssert(err == nil, "C03.resolve.list.accepts-valid")
		if err == nil {
			l := p.List()
			vAssert(p.flags.ptrType() == listPtrType && p.seg == seg, "C03.resolve.list.kind")
			vAssert(int64(l.off) == tgt, "C03.resolve.list.address")
			vAssert(int64(l.length) == cnt, "C03.resolve.list.count")
			vAssert((l.flags&isBitList != 0) == (code == 1), "C03.resolve.list.bitflag")
			vAssert(l.flags&isCompositeList == 0, "C03.resolve.list.notcomposite")
			if code != 1 {
				if code == 6 {
					vAssert(l.size.DataSize == 0 && l.size.PointerCount == 1, "C03.resolve.list.elemsize")
				} else {
					vAssert(int64(l.size.DataSize) == refElemBytes(code) && l.size.PointerCount == 0, "C03.resolve.list.elemsize")
				}
			}
		}
	} else {
		vReach("invalid")
		vAssert(err != nil, "C03.resolve.list.rejects-out-of-bounds")
	}
}

// near composite list: tag word carries count and per-element size
func VH_C03_resolve_composite() {
	n := vNondetInt()
	vAssume(n >= 8 && n <= vMaxSeg && n%8 == 0)
	msg, seg := vMsg1(n)
	vBigBudget(msg)
	paddr := int64(vNondetU32())
	vAssume(paddr%8 == 0 && paddr+8 <= int64(n))
	w := refLoad64(seg.data, paddr)
	vAssume(refKind(w) == 1 && refElemCode(w) == 7)
	tgt := paddr + 8 + 8*refOffsetWords(w)
	words := int64(refElemCount(w))
	d := uint(vNondetU64())
	vAssume(d > 0)
	p, err := seg.readPtr(address(paddr), d)
	vReach("returned")
	if tgt >= 0 && tgt+8+8*words <= int64(n) {
		tag := refLoad64(seg.data, tgt)
		cnt := refOffsetWords(tag) // element count lives in the tag's offset field
		dw, pw := int64(refDataWords(tag)), int64(refPtrWords(tag))
		// spec-valid: tag is a struct pointer, count >= 0, count*(dw+pw) words == declared words
		// (bytes, in the library's operand shape, so that the product term is shared)
		if refKind(tag) == 0 && cnt >= 0 && int64(uint32(8*(dw+pw)))*int64(int32(cnt)) == 8*words {
			vReach("valid")
			vAssert(err == nil, "C03.resolve.composite.accepts-valid")
			if err == nil {
				l := p.List()
				vAssert(p.flags.ptrType() == listPtrType && p.seg == seg && l.flags&isCompositeList != 0, "C03.resolve.composite.kind")
				vAssert(int64(l.off) == tgt+8, "C03.resolve.composite.address")
				vAssert(int64(l.length) == cnt, "C03.resolve.composite.count")
				vAssert(int64(l.size.DataSize) == 8*dw && int64(l.size.PointerCount) == pw, "C03.resolve.composite.elemsize")
			}
		}
	} else {
		vReach("invalid")
		vAssert(err != nil, "C03.resolve.composite.rejects-out-of-bounds")
	}
	// whatever the tag says, an accepted list's elements lie inside the segment
	if err == nil && p.flags.ptrType() == listPtrType {
		vAssert(invList(p.List()), "C03.resolve.composite.accepted-list-lies-inside-the-segment")
	}
}

// capability pointers and unknown "other" pointers
func VH_C03_resolve_other() {
	n := vNondetInt()
	vAssume(n >= 8 && n <= vMaxSeg && n%8 == 0)
	msg, seg := vMsg1(n)
	vBigBudget(msg)
	paddr := int64(vNondetU32())
	vAssume(paddr%8 == 0 && paddr+8 <= int64(n))
	w := refLoad64(seg.data, paddr)
	vAssume(refKind(w) == 3)
	d := uint(vNondetU64())
	vAssume(d > 0)
	p, err := seg.readPtr(address(paddr), d)
	vReach("returned")
	if (w>>2)&0x3fffffff == 0 {
		vAssert(err == nil && p.flags.ptrType() == interfacePtrType, "C03.resolve.cap.kind")
		if err == nil {
			vAssert(uint64(p.Interface().Capability()) == refCapIndex(w), "C03.resolve.cap.index")
		}
	} else {
		vAssert(err != nil, "C03.resolve.other.rejected")
	}
	// the null word reads as the null pointer
}

func VH_C03_resolve_null() {
	n := vNondetInt()
	vAssume(n >= 8 && n <= vMaxSeg && n%8 == 0)
	_, seg := vMsg1(n)
	paddr := int64(vNondetU32())
	vAssume(paddr%8 == 0 && paddr+8 <= int64(n))
	vAssume(refLoad64(seg.data, paddr) == 0)
	p, err := seg.readPtr(address(paddr), uint(vNondetU64()))
	vReach("returned")
	vAssert(err == nil && !p.IsValid(), "C03.resolve.null")
}

// far pointer between two segments: landing pad is a near pointer resolved relative to the pad
func VH_C03_resolve_far_struct() {
	msg, segs := vMsgN(2, vMaxSeg)
	vBigBudget(msg)
	a, b := segs[0], segs[1]
	paddr := int64(vNondetU32())
	vAssume(paddr%8 == 0 && paddr+8 <= segLen(a))
	w := refLoad64(a.data, paddr)
	vAssume(refKind(w) == 2 && !refFarIsDouble(w) && refFarSegment(w) == 1)
	pad := 8 * int64(refFarOffsetWords(w))
	d := uint(vNondetU64())
	vAssume(d > 0)
	p, err := a.readPtr(address(paddr), d)
	vReach("returned")
	if pad+8 <= segLen(b) {
		pw := refLoad64(b.data, pad)
		if refKind(pw) == 0 && pw != 0 {
			tgt := pad + 8 + 8*refOffsetWords(pw)
			dwc, pc := int64(refDataWords(pw)), int64(refPtrWords(pw))
			if tgt >= 0 && tgt+8*(dwc+pc) <= segLen(b) {
				vReach("valid")
				vAssert(err == nil, "C03.resolve.far.accepts-valid")
				if err == nil {
					vAssert(p.flags.ptrType() == structPtrType && p.seg == b, "C03.resolve.far.segment")
					vAssert(int64(p.off) == tgt, "C03.resolve.far.address")
					vAssert(int64(p.size.DataSize) == 8*dwc && int64(p.size.PointerCount) == pc, "C03.resolve.far.size")
				}
			} else {
				vAssert(err != nil, "C03.resolve.far.rejects-out-of-bounds")
			}
		}
	} else {
		vReach("pad-oob")
		vAssert(err != nil, "C03.resolve.far.rejects-pad-out-of-bounds")
	}
}

// double-far: pad word 0 is a far pointer to the object start, pad word 1 the tag with offset 0
func VH_C03_resolve_doublefar_struct() {
	msg, segs := vMsgN(2, vMaxSeg)
	vBigBudget(msg)
	a, b := segs[0], segs[1]
	paddr := int64(vNondetU32())
	vAssume(paddr%8 == 0 && paddr+8 <= segLen(a))
	w := refLoad64(a.data, paddr)
	vAssume(refKind(w) == 2 && refFarIsDouble(w) && refFarSegment(w) == 1)
	pad := 8 * int64(refFarOffsetWords(w))
	d := uint(vNondetU64())
	vAssume(d > 0)
	p, err := a.readPtr(address(paddr), d)
	vReach("returned")
	if pad+16 <= segLen(b) {
		f := refLoad64(b.data, pad)
		tag := refLoad64(b.data, pad+8)
		if refKind(f) == 2 && !refFarIsDouble(f) && refFarSegment(f) == 0 && refKind(tag) == 0 && refOffsetWords(tag) == 0 {
			tgt := 8 * int64(refFarOffsetWords(f))
			dwc, pc := int64(refDataWords(tag)), int64(refPtrWords(tag))
			if tgt+8*(dwc+pc) <= segLen(a) {
				vReach("valid")
				vAssert(err == nil, "C03.resolve.doublefar.accepts-valid")
				if err == nil && p.seg != nil {
					vAssert(p.flags.ptrType() == structPtrType && p.seg == a, "C03.resolve.doublefar.segment")
					vAssert(int64(p.off) == tgt, "C03.resolve.doublefar.address")
					vAssert(int64(p.size.DataSize) == 8*dwc && int64(p.size.PointerCount) == pc, "C03.resolve.doublefar.size")
				}
			} else {
				vAssert(err != nil, "C03.resolve.doublefar.rejects-out-of-bounds")
			}
		}
	} else {
		vReach("pad-oob")
		vAssert(err != nil, "C03.resolve.doublefar.rejects-pad-out-of-bounds")
	}
}

// double-far to a LIST: the landing pad's tag word is a list pointer word (any element code but
// composite here) with offset 0; the list is the object the pad's far pointer designates
func VH_C03_resolve_doublefar_list() {
	msg, segs := vMsgN(2, 1<<16)
	vBigBudget(msg)
	a, b := segs[0], segs[1]
	paddr := int64(vNondetU32())
	vAssume(paddr%8 == 0 && paddr+8 <= segLen(a))
	w := refLoad64(a.data, paddr)
	vAssume(refKind(w) == 2 && refFarIsDouble(w) && refFarSegment(w) == 1)
	pad := 8 * int64(refFarOffsetWords(w))
	vAssume(pad+16 <= segLen(b))
	f := refLoad64(b.data, pad)
	tag := refLoad64(b.data, pad+8)
	vAssume(refKind(f) == 2 && !refFarIsDouble(f) && refFarSegment(f) == 0)
	vAssume(refKind(tag) == 1 && refOffsetWords(tag) == 0)
	code := refElemCode(tag)
	vAssume(code == 2 || code == 5 || code == 6) // bytes, words, pointers
	cnt := int64(refElemCount(tag))
	vAssume(cnt <= 64)
	d := uint(vNondetU64())
	vAssume(d > 0)
	p, err := a.readPtr(address(paddr), d)
	vReach("returned")
	tgt := 8 * int64(refFarOffsetWords(f))
	esz := int64(8)
	if code == 2 {
		esz = 1
	}
	if tgt+esz*cnt <= segLen(a) {
		vReach("valid")
		vAssert(err == nil, "C03.resolve.doublefar.list.accepts-valid")
		if err == nil {
			l := p.List()
			vAssert(p.flags.ptrType() == listPtrType && p.seg == a, "C03.resolve.doublefar.list.kind-and-segment")
			vAssert(int64(l.off) == tgt && int64(l.length) == cnt, "C03.resolve.doublefar.list.address-and-count")
		}
	} else {
		vAssert(err != nil, "C03.resolve.doublefar.list.rejects-out-of-bounds")
	}
}

// H-field: struct data accessors = little-endian bytes at the field, 0 beyond the data section
func VH_C03_field_data() {
	seg := vSeg()
	s := vStructIn(seg)
	off := int64(vNondetU32())
	vAssume(off < 1<<19)
	base := int64(s.off)
	ds := int64(s.size.DataSize)
	vReach("entry")
	switch vNondetU8() {
	case 0:
		got := uint64(s.Uint8(DataOffset(off)))
		if off+1 <= ds {
			vAssert(got == refLoadN(seg.data, base+off, 1), "C03.field.u8")
		} else {
			vAssert(got == 0, "C03.field.u8.default")
		}
	case 1:
		got := uint64(s.Uint16(DataOffset(off)))
		if off+2 <= ds {
			vAssert(got == refLoadN(seg.data, base+off, 2), "C03.field.u16")
		} else {
			vAssert(got == 0, "C03.field.u16.default")
		}
	case 2:
		got := uint64(s.Uint32(DataOffset(off)))
		if off+4 <= ds {
			vAssert(got == refLoadN(seg.data, base+off, 4), "C03.field.u32")
		} else {
			vAssert(got == 0, "C03.field.u32.default")
		}
	case 3:
		got := s.Uint64(DataOffset(off))
		if off+8 <= ds {
			vAssert(got == refLoadN(seg.data, base+off, 8), "C03.field.u64")
		} else {
			vAssert(got == 0, "C03.field.u64.default")
		}
	default:
		bit := int64(vNondetU32())
		got := s.Bit(BitOffset(bit))
		if bit < 8*ds {
			vAssert(got == ((seg.data[base+bit/8]>>(uint(bit)%8))&1 == 1), "C03.field.bit")
		} else {
			vAssert(!got, "C03.field.bit.default")
		}
	}
}

// H-field pointers: slot i is the word at off+DataSize+8i, null beyond the pointer section
func VH_C03_field_ptr() {
	seg := vSeg()
	s := vStructIn(seg)
	vBigBudget(seg.msg)
	i := vNondetU16()
	vReach("entry")
	has := s.HasPtr(i)
	if i >= s.size.PointerCount {
		p, err := s.Ptr(i)
		vAssert(err == nil && !p.IsValid() && !has, "C03.field.ptr.default-null")
		return
	}
	slot := int64(s.off) + int64(s.size.DataSize) + 8*int64(i)
	vAssert(int64(s.pointerAddress(i)) == slot, "C03.field.ptr.slot-address")
	vAssert(has == (refLoad64(seg.data, slot) != 0), "C03.field.ptr.hasptr")
}

package capnp

// Representation invariants over the real structs, in 64-bit arithmetic (no wrap).
// These are the inductive invariants of DESIGN.md §4 C01 Layer A.

func segLen(s *Segment) int64 { return int64(len(s.data)) }

func invStruct(p Struct) bool {
	if p.seg == nil {
		return true
	}
	if int64(p.size.DataSize) > 8*0xffff {
		return false
	}
	return int64(p.off)+int64(p.size.DataSize)+8*int64(p.size.PointerCount) <= segLen(p.seg)
}

// list-member structs produced by List.Struct on primitive lists may have data sizes 1/2/4
func invList(l List) bool {
	if l.seg == nil {
		return true
	}
	if l.length < 0 || int64(l.length) >= 1<<29 {
		return false
	}
	if l.flags&isBitList != 0 {
		return int64(l.off)+(int64(l.length)+7)/8 <= segLen(l.seg)
	}
	if int64(l.size.DataSize) > 8*0xffff {
		return false
	}
	// totalSize() is pinned to DataSize + 8*PointerCount by VH_C03_sizes; using the same
	// expression shape as the code keeps the product term syntactically shared.
	return int64(l.off)+int64(l.size.totalSize())*int64(l.length) <= segLen(l.seg)
}

func invPtr(p Ptr) bool {
	if p.seg == nil {
		return true
	}
	switch p.flags.ptrType() {
	case structPtrType:
		return invStruct(p.Struct())
	case listPtrType:
		return invList(p.List())
	case interfacePtrType:
		return true
	}
	return false
}

// vMsg1 builds a single-segment read-only message over n symbolic bytes (cap == len).
func vMsg1(n int) (*Message, *Segment) {
	data := vNondetBytes(n)
	msg := &Message{Arena: SingleSegment(data), TraverseLimit: vNondetU64(), DepthLimit: uint(vNondetU64())}
	seg, err := msg.Segment(0)
	vAssume(err == nil)
	return msg, seg
}

// vMsgN builds a k-segment message (k concrete, 1..3) with symbolic segment lengths.
func vMsgN(k int, maxLen int64) (*Message, []*Segment) {
	bufs := make([][]byte, k)
	for i := 0; i < k; i++ {
		n := vNondetInt()
		vAssume(n >= 0 && int64(n) <= maxLen && n%8 == 0)
		bufs[i] = vNondetBytes(n)
	}
	msg := &Message{Arena: MultiSegment(bufs), TraverseLimit: vNondetU64(), DepthLimit: uint(vNondetU64())}
	segs := make([]*Segment, k)
	for i := 0; i < k; i++ {
		s, err := msg.Segment(SegmentID(i))
		vAssume(err == nil)
		segs[i] = s
	}
	return msg, segs
}

// vStructIn returns an arbitrary struct value satisfying invStruct inside seg.
func vStructIn(seg *Segment) Struct {
	s := Struct{seg: seg, off: address(vNondetU32()), depthLimit: uint(vNondetU64()), flags: structFlags(vNondetU8() & 1)}
	s.size.DataSize = Size(vNondetU32())
	s.size.PointerCount = vNondetU16()
	vAssume(invStruct(s))
	// real structs have word-aligned offsets; data size is a multiple of 8 except for
	// members of 1/2/4-byte lists
	vAssume(s.off%8 == 0 || s.flags&isListMember != 0)
	if s.flags&isListMember == 0 {
		vAssume(s.size.DataSize%8 == 0)
	} else {
		vAssume(s.size.DataSize%8 == 0 || (s.size.PointerCount == 0 && (s.size.DataSize == 1 || s.size.DataSize == 2 || s.size.DataSize == 4)))
	}
	return s
}

// vListIn returns an arbitrary list value satisfying invList inside seg.
func vListIn(seg *Segment) List {
	l := List{seg: seg, off: address(vNondetU32()), length: int32(vNondetU32()), depthLimit: uint(vNondetU64())}
	vAssume(l.off%8 == 0)
	switch vNondetU8() {
	case 0: // composite
		l.flags = isCompositeList
		l.size.DataSize = Size(vNondetU32())
		l.size.PointerCount = vNondetU16()
		vAssume(l.size.DataSize%8 == 0)
		vAssume(l.off >= 8)
	case 1:
		l.flags = isBitList
	case 2:
		l.size.DataSize = 1
	case 3:
		l.size.DataSize = 2
	case 4:
		l.size.DataSize = 4
	case 5:
		l.size.DataSize = 8
	case 6:
		l.size.PointerCount = 1
	default:
		// void
	}
	vAssume(invList(l))
	return l
}

// vSmallSize picks one of nine concrete element sizes (0..2 data words x 0..2 pointers); each is a
// separate path with constant strides, which keeps word-count products linear.
func vSmallSize() ObjectSize {
	var sz ObjectSize
	switch vNondetU8() % 3 {
	case 1:
		sz.DataSize = 8
	case 2:
		sz.DataSize = 16
	}
	switch vNondetU8() % 3 {
	case 1:
		sz.PointerCount = 1
	case 2:
		sz.PointerCount = 2
	}
	return sz
}

// vListInTagged is vListIn with two additions for the write side: composite lists have one of the
// nine small element sizes, and the tag word in front of the elements encodes (length, size) as the
// spec requires (part of the representation invariant of a composite list).
func vListInTagged(seg *Segment) List {
	l := List{seg: seg, off: address(vNondetU32()), length: int32(vNondetU32()), depthLimit: uint(vNondetU64())}
	vAssume(l.off%8 == 0)
	switch vNondetU8() {
	case 0: // composite
		l.flags = isCompositeList
		l.size = vSmallSize()
		vAssume(l.off >= 8)
	case 1:
		l.flags = isBitList
	case 2:
		l.size.DataSize = 1
	case 3:
		l.size.DataSize = 2
	case 4:
		l.size.DataSize = 4
	case 5:
		l.size.DataSize = 8
	case 6:
		l.size.PointerCount = 1
	default:
		// void
	}
	vAssume(invList(l))
	if l.flags&isCompositeList != 0 {
		tag := refLoad64(seg.data, int64(l.off)-8)
		vAssume(refKind(tag) == 0 && refOffsetWords(tag) == int64(l.length) && 8*refDataWords(tag) == uint64(l.size.DataSize) && refPtrWords(tag) == uint64(l.size.PointerCount))
	}
	return l
}

package capnp

// C17: Equal against the documented structural equality. Small concrete shapes (lengths, element
// sizes) x fully symbolic contents and positions.

func vConc(x, n int) int {
	for i := 0; i < n; i++ {
		if x == i {
			return i
		}
	}
	vAssume(false)
	return 0
}

// vStructSmall: a struct with 0..2 data words and 0..2 pointers anywhere in seg
func vStructSmall(seg *Segment) Struct {
	s := Struct{seg: seg, off: address(vNondetU32()), depthLimit: maxDepth}
	s.size = vSmallSize()
	vAssume(s.off%8 == 0 && invStruct(s))
	return s
}

// data sections: equal on the common prefix, the longer one's tail all zero
func VH_C17_struct_data() {
	seg := vSeg()
	vBigBudget(seg.msg)
	a, b := vStructSmall(seg), vStructSmall(seg)
	a.size.PointerCount, b.size.PointerCount = 0, 0
	eq, err := Equal(a.ToPtr(), b.ToPtr())
	eq2, err2 := Equal(b.ToPtr(), a.ToPtr())
	vReach("returned")
	vAssert(err == nil && err2 == nil, "C17.struct.no-error")
	vAssert(eq == eq2, "C17.struct.symmetric")
	na, nb := int(a.size.DataSize), int(b.size.DataSize)
	want := true
	for j := 0; j < 16; j++ {
		var x, y byte
		if j < na {
			x = seg.data[int(a.off)+j]
		}
		if j < nb {
			y = seg.data[int(b.off)+j]
		}
		if x != y {
			want = false
		}
	}
	vAssert(eq == want, "C17.struct.data-zero-extended")
	r, _ := Equal(a.ToPtr(), a.ToPtr())
	vAssert(r, "C17.struct.reflexive")
}

// pointer sections with null / capability members: pairwise equal, extra pointers must be null
func VH_C17_struct_ptrs() {
	seg := vSeg()
	vBigBudget(seg.msg)
	a, b := vStructSmall(seg), vStructSmall(seg)
	a.size.DataSize, b.size.DataSize = 0, 0
	// every pointer word involved is null or a capability pointer
	wa := [2]uint64{}
	wb := [2]uint64{}
	for i := 0; i < int(a.size.PointerCount); i++ {
		wa[i] = refLoad64(seg.data, int64(a.off)+8*int64(i))
		vAssume(wa[i] == 0 || (refKind(wa[i]) == 3 && (wa[i]>>2)&0x3fffffff == 0))
	}
	for i := 0; i < int(b.size.PointerCount); i++ {
		wb[i] = refLoad64(seg.data, int64(b.off)+8*int64(i))
		vAssume(wb[i] == 0 || (refKind(wb[i]) == 3 && (wb[i]>>2)&0x3fffffff == 0))
	}
	eq, err := Equal(a.ToPtr(), b.ToPtr())
	eq2, _ := Equal(b.ToPtr(), a.ToPtr())
	vReach("returned")
	vAssert(err == nil, "C17.ptrs.no-error")
	vAssert(eq == eq2, "C17.ptrs.symmetric")
	// capabilities of one message (empty capability table): equal iff same index; null only to null
	want := true
	for i := 0; i < 2; i++ {
		if wa[i] != wb[i] {
			want = false
		}
	}
	vAssert(eq == want, "C17.ptrs.pairwise-and-null-extended")
}

// primitive lists of the same kind: by length and element-wise
func vPrimListSmall(seg *Segment, kind int) List {
	l := List{seg: seg, off: address(vNondetU32()), depthLimit: maxDepth}
	n := vConc(int(vNondetU8()), 3)
	switch kind {
	case 0: // void
	case 1:
		l.flags = isBitList
		n = vConc(int(vNondetU8()), 11) // up to 10 bits: crosses a byte boundary
	case 2:
		l.size.DataSize = 1
	case 3:
		l.size.DataSize = 2
	case 4:
		l.size.DataSize = 4
	case 5:
		l.size.DataSize = 8
	}
	l.length = int32(n)
	vAssume(l.off%8 == 0 && invList(l))
	return l
}

func refListBit(seg *Segment, l List, i int) bool {
	return (seg.data[int(l.off)+i/8]>>(uint(i)%8))&1 == 1
}

func vEqPrim(kind int) {
	seg := vSeg()
	vBigBudget(seg.msg)
	a, b := vPrimListSmall(seg, kind), vPrimListSmall(seg, kind)
	eq, err := Equal(a.ToPtr(), b.ToPtr())
	eq2, _ := Equal(b.ToPtr(), a.ToPtr())
	vReach("returned")
	vAssert(err == nil, "C17.list.no-error")
	vAssert(eq == eq2, "C17.list.symmetric")
	want := a.length == b.length
	if want {
		n := int(a.length)
		if kind == 1 {
			vRegion("bitlists", true)
			for i := 0; i < n; i++ {
				if refListBit(seg, a, i) != refListBit(seg, b, i) {
					want = false
				}
			}
		} else {
			for j := 0; j < n*int(a.size.DataSize); j++ {
				if seg.data[int(a.off)+j] != seg.data[int(b.off)+j] {
					want = false
				}
			}
		}
	}
	vAssert(eq == want, "C17.list.length-and-elementwise")
}

func VH_C17_list_void() { vEqPrim(0) }
func VH_C17_list_bit()  { vEqPrim(1) }
func VH_C17_list_b1()   { vEqPrim(2) }
func VH_C17_list_b2()   { vEqPrim(3) }
func VH_C17_list_b4()   { vEqPrim(4) }
func VH_C17_list_b8()   { vEqPrim(5) }

// a primitive list equals a struct list whose elements hold that value as their sole field
func VH_C17_list_upgrade() {
	seg := vSeg()
	vBigBudget(seg.msg)
	kind := 2 + vConc(int(vNondetU8()), 4)
	a := vPrimListSmall(seg, kind)
	b := List{seg: seg, off: address(vNondetU32()), depthLimit: maxDepth, flags: isCompositeList}
	b.size.DataSize = 8
	b.length = int32(vConc(int(vNondetU8()), 3))
	vAssume(b.off%8 == 0 && invList(b))
	eq, err := Equal(a.ToPtr(), b.ToPtr())
	eq2, _ := Equal(b.ToPtr(), a.ToPtr())
	vReach("returned")
	vAssert(err == nil, "C17.upgrade.no-error")
	vAssert(eq == eq2, "C17.upgrade.symmetric")
	want := a.length == b.length
	if want {
		w := int(a.size.DataSize)
		for i := 0; i < int(a.length); i++ {
			for j := 0; j < 8; j++ {
				var x byte
				if j < w {
					x = seg.data[int(a.off)+i*w+j]
				}
				if x != seg.data[int(b.off)+8*i+j] {
					want = false
				}
			}
		}
	}
	vAssert(eq == want, "C17.upgrade.primitive-vs-struct-list")
}

// different kinds are never equal; null only equals null
func VH_C17_kinds() {
	seg := vSeg()
	vBigBudget(seg.msg)
	s := vStructSmall(seg)
	l := vPrimListSmall(seg, 2)
	c := NewInterface(seg, CapabilityID(vNondetU32()))
	vReach("entry")
	for _, pr := range [][2]Ptr{{s.ToPtr(), l.ToPtr()}, {s.ToPtr(), c.ToPtr()}, {l.ToPtr(), c.ToPtr()}, {s.ToPtr(), {}}, {l.ToPtr(), {}}, {c.ToPtr(), {}}} {
		eq, err := Equal(pr[0], pr[1])
		vAssert(err == nil && !eq, "C17.kinds.never-equal")
		eq, err = Equal(pr[1], pr[0])
		vAssert(err == nil && !eq, "C17.kinds.never-equal")
	}
	eq, err := Equal(Ptr{}, Ptr{})
	vAssert(err == nil && eq, "C17.kinds.null-equals-null")
	// capabilities by identity: same message, same index
	c2 := NewInterface(seg, CapabilityID(vNondetU32()))
	eq, err = Equal(c.ToPtr(), c2.ToPtr())
	vAssert(err == nil && eq == (c.cap == c2.cap), "C17.cap.same-message-by-index")
}

// capabilities in different messages: equal exactly when they are the same capability
func VH_C17_cap_cross_message() {
	ma, sa := vNewMsg()
	mb, sb := vNewMsg()
	alice, bob := NewClient(&vHook{}), NewClient(&vHook{})
	// entry 2 is null in both tables: in one as a promised client that resolved to null, in the other
	// as a nil entry
	np, npp := NewPromisedClient(&vHook{})
	npp.Fulfill(nil)
	ma.CapTable = []*Client{alice, bob, np}
	mb.CapTable = []*Client{bob, alice, nil}
	// indexes 0 and 1 name a capability, 2 the null capability, 3 (== len(CapTable)) and 4 none
	i := CapabilityID(vConc(int(vNondetU8()), 5))
	j := CapabilityID(vConc(int(vNondetU8()), 5))
	eq, err := Equal(NewInterface(sa, i).ToPtr(), NewInterface(sb, j).ToPtr())
	eq2, err2 := Equal(NewInterface(sb, j).ToPtr(), NewInterface(sa, i).ToPtr())
	vReach("returned")
	vAssert(err == nil && err2 == nil && eq == eq2, "C17.capx.symmetric")
	var ci, cj *Client // the capability named, nil for "none / null"
	if i < 2 {
		ci = ma.CapTable[i]
	}
	if j < 2 {
		cj = mb.CapTable[j]
	}
	vAssert(eq == (ci == cj), "C17.capx.by-identity-not-by-index")
	vAssert(vLocksHeld() == 0, "C17.capx.no-lock-held")
}

// a value equals its canonical re-encoding (different section sizes, different layout), and its
// copy into a populated destination of another size
func VH_C17_equals_reencoding() {
	_, seg := vNewMsg()
	s, err := NewRootStruct(seg, ObjectSize{DataSize: 16, PointerCount: 2})
	vAssume(err == nil)
	s.SetUint64(0, vNondetU64())
	const n = 2
	l, err := NewCompositeList(seg, ObjectSize{DataSize: 8, PointerCount: 1}, n)
	vAssume(err == nil)
	for i := 0; i < n; i++ {
		l.Struct(i).SetUint64(0, vNondetU64())
		if vConc(int(vNondetU8()), 2) == 1 {
			vAssume(l.Struct(i).SetData(0, []byte{vNondetU8()}) == nil)
		}
	}
	vAssume(s.SetPtr(0, l.ToPtr()) == nil)
	out, err := Canonicalize(s)
	vAssume(err == nil)
	m := &Message{Arena: SingleSegment(out)}
	back, err := m.Root()
	vReach("reencoded")
	vAssert(err == nil, "C17.reenc.readable")
	if err != nil {
		return
	}
	eq, err := Equal(s.ToPtr(), back)
	vAssert(err == nil && eq, "C17.reenc.value-equals-its-canonical-reencoding")
	eq2, err := Equal(back, s.ToPtr())
	vAssert(err == nil && eq2, "C17.reenc.symmetric")
	// copy into a larger, populated struct: still equal
	_, sb := vNewMsg()
	dst, err := NewStruct(sb, ObjectSize{DataSize: 24, PointerCount: 3})
	vAssume(err == nil)
	dst.SetUint64(0, vNondetU64())
	dst.SetUint64(8, vNondetU64())
	dst.SetUint64(16, vNondetU64())
	vAssume(dst.CopyFrom(s) == nil)
	eq3, err := Equal(dst.ToPtr(), s.ToPtr())
	vAssert(err == nil && eq3, "C17.reenc.value-equals-its-copy-into-a-larger-struct")
}

// a struct holding an interface pointer, deep-copied INSIDE one multi-segment message (into a list
// element in another segment): the copy equals the original - capability pointers of one message
// keep their index, whether or not the table has an entry for it
func VH_C17_copy_interface_same_message() {
	msg := &Message{Arena: MultiSegment([][]byte{make([]byte, 0, 64), make([]byte, 0, 256)})}
	seg, err := msg.Segment(0)
	vAssume(err == nil)
	src, err := NewRootStruct(seg, ObjectSize{DataSize: 8, PointerCount: 1})
	vAssume(err == nil)
	src.SetUint64(0, vNondetU64())
	idx := CapabilityID(vConc(int(vNondetU8()), 3))
	if vConc(int(vNondetU8()), 2) == 1 {
		msg.CapTable = []*Client{NewClient(&vHook{})}
	}
	vAssume(src.SetPtr(0, NewInterface(seg, idx).ToPtr()) == nil)
	// a list that no longer fits into segment 0: it goes to segment 1
	l, err := NewCompositeList(seg, ObjectSize{DataSize: 8, PointerCount: 1}, 3)
	vAssume(err == nil)
	before := len(msg.CapTable)
	err = l.SetStruct(1, src)
	vReach("copied")
	vAssert(err == nil, "C17.samemsg.copy-ok")
	if err != nil {
		return
	}
	vAssert(len(msg.CapTable) == before, "C17.samemsg.capability-table-unchanged")
	eq, err := Equal(src.ToPtr(), l.Struct(1).ToPtr())
	vAssert(err == nil && eq, "C17.samemsg.copy-equals-original")
	eq2, err := Equal(l.Struct(1).ToPtr(), src.ToPtr())
	vAssert(err == nil && eq2, "C17.samemsg.symmetric")
}

package text

// C20, text encoder: on a small schema built in the harness (one struct: int16 with default, uint32,
// float32, bool, a Text field), with symbolic field values:
//  * each numeric token is produced from exactly the accessor value (field bits XOR default);
//  * the output depends only on the struct: a fresh encoder and an encoder that rendered another,
//    arbitrary value before produce identical bytes;
//  * the encoder's cached schema nodes do not wear out: rendering succeeds for every amount of
//    traversal budget a long-used encoder can have left.
// Number formatting itself (strconv) is an uninterpreted function of its operands.

import (
	"math"
	"strconv"

	"capnproto.org/go/capnp/v3"
	"capnproto.org/go/capnp/v3/internal/schema"
	"capnproto.org/go/capnp/v3/schemas"
)

const vTypeID = 0xabcdef0123456789

// vBuf is an io.Writer that appends (no capacity logic, so symbolic token lengths do not fork)
type vBuf struct{ b []byte }

func (w *vBuf) Write(p []byte) (int, error) {
	w.b = append(w.b, p...)
	return len(p), nil
}

func vField(fl schema.Field_List, i int, name string, off uint32) schema.Type {
	f := fl.At(i)
	vAssume(f.SetName(name) == nil)
	f.SetCodeOrder(uint16(i))
	f.SetDiscriminantValue(schema.Field_noDiscriminant)
	f.SetSlot()
	f.Slot().SetOffset(off)
	t, err := f.Slot().NewType()
	vAssume(err == nil)
	return t
}

// struct T { i @0 :Int16 = -2; u @1 :UInt32; f @2 :Float32; b @3 :Bool; t @4 :Text; }
func vSchema() *schemas.Registry {
	msg, seg, err := capnp.NewMessage(capnp.SingleSegment(nil))
	vAssume(err == nil)
	req, err := schema.NewRootCodeGeneratorRequest(seg)
	vAssume(err == nil)
	nodes, err := req.NewNodes(1)
	vAssume(err == nil)
	n := nodes.At(0)
	n.SetId(vTypeID)
	vAssume(n.SetDisplayName("t.capnp:T") == nil)
	n.SetDisplayNamePrefixLength(8)
	n.SetStructNode()
	sn := n.StructNode()
	sn.SetDataWordCount(2)
	sn.SetPointerCount(1)
	fl, err := sn.NewFields(5)
	vAssume(err == nil)
	ti := vField(fl, 0, "i", 0) // bytes 0..1
	ti.SetInt16()
	dv, err := fl.At(0).Slot().NewDefaultValue()
	vAssume(err == nil)
	dv.SetInt16(-2)
	vField(fl, 1, "u", 1).SetUint32()  // bytes 4..7
	vField(fl, 2, "f", 2).SetFloat32() // bytes 8..11
	vField(fl, 3, "b", 16).SetBool()   // bit 16 = byte 2 bit 0
	vField(fl, 4, "t", 0).SetText()    // pointer 0
	// the schema compiler always emits a default value of the field's type
	for i := 1; i < 5; i++ {
		d, err := fl.At(i).Slot().NewDefaultValue()
		vAssume(err == nil)
		switch i {
		case 1:
			d.SetUint32(0)
		case 2:
			d.SetFloat32(0)
		case 3:
			d.SetBool(false)
		default:
			vAssume(d.SetText("") == nil)
		}
	}
	data, err := msg.Marshal()
	vAssume(err == nil)
	reg := new(schemas.Registry)
	vAssume(reg.Register(&schemas.Schema{Bytes: data, Nodes: []uint64{vTypeID}}) == nil)
	return reg
}

func vValue() (capnp.Struct, uint16, uint32) {
	_, seg, err := capnp.NewMessage(capnp.SingleSegment(nil))
	vAssume(err == nil)
	s, err := capnp.NewStruct(seg, capnp.ObjectSize{DataSize: 16, PointerCount: 1})
	vAssume(err == nil)
	i, u := vNondetU16(), vNondetU32()
	s.SetUint16(0, i)
	s.SetUint32(4, u)
	s.SetUint32(8, vNondetU32())
	s.SetBit(16, vNondetBool())
	// (Text quoting is decided separately on strquote.Append; here the field stays at its default)
	return s, i, u
}

// every numeric token is produced from the accessor value
func VH_C20_field_operands() {
	reg := vSchema()
	_, seg, err := capnp.NewMessage(capnp.SingleSegment(nil))
	vAssume(err == nil)
	s, err := capnp.NewStruct(seg, capnp.ObjectSize{DataSize: 16, PointerCount: 1})
	vAssume(err == nil)
	n, err := (&nodeFinder{reg: reg}).find()
	vAssume(err == nil)
	fields, err := n.StructNode().Fields()
	vAssume(err == nil)
	enc := NewEncoder(&vBuf{})
	enc.UseRegistry(reg)
	i, u := vNondetU16(), vNondetU32()
	s.SetUint16(0, i)
	s.SetUint32(4, u)
	vReach("entry")
	vAssert(enc.marshalFieldValue(s, fields.At(0)) == nil, "C20.field.int16.ok")
	vAssert(int64(vTokOperand(0)) == int64(int16(i^0xfffe)), "C20.field.int16-token-is-the-accessor-value")
	vAssert(enc.marshalFieldValue(s, fields.At(1)) == nil, "C20.field.uint32.ok")
	vAssert(vTokOperand(0) == uint64(u), "C20.field.uint32-token-is-the-accessor-value")
}

type nodeFinder struct{ reg *schemas.Registry }

func (nf *nodeFinder) find() (schema.Node, error) {
	data, err := nf.reg.Find(vTypeID)
	if err != nil {
		return schema.Node{}, err
	}
	msg, err := capnp.Unmarshal(data)
	if err != nil {
		return schema.Node{}, err
	}
	req, err := schema.ReadRootCodeGeneratorRequest(msg)
	if err != nil {
		return schema.Node{}, err
	}
	nodes, err := req.Nodes()
	if err != nil {
		return schema.Node{}, err
	}
	return nodes.At(0), nil
}

// the rendering equals the reference rendering (field names in code order, each value formatted from
// the accessor value), on a fresh encoder and on one that rendered another value before
func vReference(s capnp.Struct) []byte {
	var out []byte
	out = append(out, "(i = "...)
	out = strconv.AppendInt(out, int64(int16(s.Uint16(0)^0xfffe)), 10)
	out = append(out, ", u = "...)
	out = strconv.AppendUint(out, uint64(s.Uint32(4)), 10)
	out = append(out, ", f = "...)
	out = strconv.AppendFloat(out, float64(math.Float32frombits(s.Uint32(8))), 'g', -1, 32)
	if s.Bit(16) {
		out = append(out, ", b = true"...)
	} else {
		out = append(out, ", b = false"...)
	}
	out = append(out, ", t = \"\")"...)
	return out
}

func VH_C20_render_reference() {
	reg := vSchema()
	s, _, _ := vValue()
	b := &vBuf{}
	enc := NewEncoder(b)
	enc.UseRegistry(reg)
	if vNondetBool() {
		// an encoder that rendered something before (the all-default struct)
		_, seg, err := capnp.NewMessage(capnp.SingleSegment(nil))
		vAssume(err == nil)
		other, err := capnp.NewStruct(seg, capnp.ObjectSize{DataSize: 16, PointerCount: 1})
		vAssume(err == nil)
		vAssume(enc.Encode(vTypeID, other) == nil)
		b.b = nil
	}
	err := enc.Encode(vTypeID, s)
	vReach("rendered")
	vAssert(err == nil, "C20.render.no-error")
	want := vReference(s)
	vAssert(len(b.b) == len(want), "C20.render.length-equals-reference")
	if len(b.b) == len(want) {
		// bytes: the fixed prefix, the first byte of the first token and the closing bytes (an
		// arbitrary index into a concatenation of three tokens of symbolic length is beyond the solvers)
		for j := 0; j < 6; j++ {
			vAssert(b.b[j] == want[j], "C20.render.bytes-equal-reference")
		}
		n := len(want)
		for j := 1; j <= 8; j++ {
			vAssert(b.b[n-j] == want[n-j], "C20.render.bytes-equal-reference")
		}
	}
}

// the same value renders to the same bytes on a fresh and on a used encoder
func VH_C20_history_independent() {
	reg := vSchema()
	s, _, _ := vValue()
	b1 := &vBuf{}
	fresh := NewEncoder(b1)
	fresh.UseRegistry(reg)
	e1 := fresh.Encode(vTypeID, s)
	b2 := &vBuf{}
	used := NewEncoder(b2)
	used.UseRegistry(reg)
	other, _, _ := vValue()
	vAssume(used.Encode(vTypeID, other) == nil)
	b2.b = nil
	e2 := used.Encode(vTypeID, s)
	vReach("rendered")
	vAssert(e1 == nil && e2 == nil, "C20.history.no-error")
	o1, o2 := b1.b, b2.b
	vAssert(len(o1) == len(o2), "C20.history.same-length-on-fresh-and-used-encoder")
	if len(o1) == len(o2) && len(o1) > 0 {
		j := vNondetInt()
		vAssume(j >= 0 && j < len(o1))
		vAssert(o1[j] == o2[j], "C20.history.same-bytes-on-fresh-and-used-encoder")
	}
}

// a long-used encoder: whatever traversal budget its cached schema message can have left after up
// to 2^40 bytes of schema reads, rendering still works (the budget must not be a consumable)
func VH_C20_schema_budget() {
	reg := vSchema()
	_, seg, err := capnp.NewMessage(capnp.SingleSegment(nil))
	vAssume(err == nil)
	s, err := capnp.NewStruct(seg, capnp.ObjectSize{DataSize: 16, PointerCount: 1})
	vAssume(err == nil)
	b := &vBuf{}
	enc := NewEncoder(b)
	enc.UseRegistry(reg)
	vAssume(enc.Encode(vTypeID, s) == nil) // loads and caches the schema nodes
	n, err := enc.nodes.Find(vTypeID)
	vAssume(err == nil)
	sm := n.Struct.Segment().Message()
	// what the cached schema message's read limiter really has left now, less whatever further
	// Encode calls of a long-used encoder can have consumed (up to 2^40 bytes of schema reads)
	initial := capnp.VBudgetLeft(sm)
	used := vNondetU64()
	vAssume(used <= 1<<40)
	left := uint64(0)
	if used < initial {
		left = initial - used
	}
	vRegion("schema_budget_exhausted", true)
	sm.ResetReadLimit(left) // what earlier Encode calls can have left
	b.b = nil
	err = enc.Encode(vTypeID, s)
	vReach("rendered")
	vAssert(err == nil, "C20.budget.long-used-encoder-still-renders")
}

package text

// C20, second schema: struct U { e @0 :E = b; l @1 :List(Int16); es @2 :List(E); } enum E { a; b; }
// Enum fields render as the enumerant's name when the value names one and as the number otherwise -
// for EVERY 16-bit value, without error or panic; list fields render through list.go's String().

import (
	"math"
	"strconv"

	"capnproto.org/go/capnp/v3"
	"capnproto.org/go/capnp/v3/internal/schema"
	"capnproto.org/go/capnp/v3/schemas"
)

const (
	vTypeU = 0xabcdef0123456701
	vTypeE = 0xabcdef0123456702
)

func vSchema2() *schemas.Registry {
	msg, seg, err := capnp.NewMessage(capnp.SingleSegment(nil))
	vAssume(err == nil)
	req, err := schema.NewRootCodeGeneratorRequest(seg)
	vAssume(err == nil)
	nodes, err := req.NewNodes(2)
	vAssume(err == nil)
	n := nodes.At(0)
	n.SetId(vTypeU)
	vAssume(n.SetDisplayName("t.capnp:U") == nil)
	n.SetDisplayNamePrefixLength(8)
	n.SetStructNode()
	sn := n.StructNode()
	sn.SetDataWordCount(1)
	sn.SetPointerCount(2)
	fl, err := sn.NewFields(3)
	vAssume(err == nil)
	te := vField(fl, 0, "e", 0)
	te.SetEnum()
	te.Enum().SetTypeId(vTypeE)
	d0, err := fl.At(0).Slot().NewDefaultValue()
	vAssume(err == nil)
	d0.SetEnum(1)
	tl := vField(fl, 1, "l", 0)
	tl.SetList()
	et, err := tl.List().NewElementType()
	vAssume(err == nil)
	et.SetInt16()
	d1, err := fl.At(1).Slot().NewDefaultValue()
	vAssume(err == nil)
	vAssume(d1.SetList(capnp.Ptr{}) == nil)
	tes := vField(fl, 2, "es", 1)
	tes.SetList()
	et2, err := tes.List().NewElementType()
	vAssume(err == nil)
	et2.SetEnum()
	et2.Enum().SetTypeId(vTypeE)
	d2, err := fl.At(2).Slot().NewDefaultValue()
	vAssume(err == nil)
	vAssume(d2.SetList(capnp.Ptr{}) == nil)

	en := nodes.At(1)
	en.SetId(vTypeE)
	vAssume(en.SetDisplayName("t.capnp:E") == nil)
	en.SetDisplayNamePrefixLength(8)
	en.SetEnum()
	el, err := en.Enum().NewEnumerants(2)
	vAssume(err == nil)
	vAssume(el.At(0).SetName("a") == nil)
	vAssume(el.At(1).SetName("b") == nil)
	el.At(1).SetCodeOrder(1)

	data, err := msg.Marshal()
	vAssume(err == nil)
	reg := new(schemas.Registry)
	vAssume(reg.Register(&schemas.Schema{Bytes: data, Nodes: []uint64{vTypeU, vTypeE}}) == nil)
	return reg
}

func vFieldsU(reg *schemas.Registry) schema.Field_List {
	data, err := reg.Find(vTypeU)
	vAssume(err == nil)
	msg, err := capnp.Unmarshal(data)
	vAssume(err == nil)
	req, err := schema.ReadRootCodeGeneratorRequest(msg)
	vAssume(err == nil)
	nodes, err := req.Nodes()
	vAssume(err == nil)
	fields, err := nodes.At(0).StructNode().Fields()
	vAssume(err == nil)
	return fields
}

func VH_C20_enum_field() {
	reg := vSchema2()
	fields := vFieldsU(reg)
	_, seg, err := capnp.NewMessage(capnp.SingleSegment(nil))
	vAssume(err == nil)
	s, err := capnp.NewStruct(seg, capnp.ObjectSize{DataSize: 8, PointerCount: 2})
	vAssume(err == nil)
	// the accessor value v = field bits XOR default: each named enumerant concretely (a symbolic
	// index into the schema's enumerant list turns every schema read into a case split the solvers
	// time out on), every other 16-bit value symbolically
	var v uint16
	switch vNondetU8() % 3 {
	case 0:
		v = 0
	case 1:
		v = 1
	default:
		v = vNondetU16()
		vAssume(v >= 2)
	}
	s.SetUint16(0, v^1)
	b := &vBuf{}
	enc := NewEncoder(b)
	enc.UseRegistry(reg)
	vReach("entry")
	err = enc.marshalFieldValue(s, fields.At(0))
	vAssert(err == nil, "C20.enum.renders-every-value")
	if err != nil {
		return
	}
	switch {
	case v == 0:
		vAssert(string(b.b) == "a", "C20.enum.name-of-enumerant-0")
	case v == 1:
		vAssert(string(b.b) == "b", "C20.enum.name-of-enumerant-1")
	default:
		vReach("numeric")
		vAssert(vTokOperand(0) == uint64(v), "C20.enum.unknown-value-renders-as-its-number")
		vAssert(len(b.b) >= 1, "C20.enum.unknown-value-not-empty")
	}
}

func VH_C20_list_fields() {
	reg := vSchema2()
	fields := vFieldsU(reg)
	_, seg, err := capnp.NewMessage(capnp.SingleSegment(nil))
	vAssume(err == nil)
	s, err := capnp.NewStruct(seg, capnp.ObjectSize{DataSize: 8, PointerCount: 2})
	vAssume(err == nil)
	l, err := capnp.NewInt16List(seg, 2)
	vAssume(err == nil)
	x, y := int16(vNondetU16()), int16(vNondetU16())
	l.Set(0, x)
	l.Set(1, y)
	vAssume(s.SetPtr(0, l.ToPtr()) == nil)
	b := &vBuf{}
	enc := NewEncoder(b)
	enc.UseRegistry(reg)
	m := vTokMark()
	err = enc.marshalFieldValue(s, fields.At(1))
	vReach("list-rendered")
	vAssert(err == nil, "C20.listfield.no-error")
	out := string(b.b)
	vAssert(vStrTokCount(out, m) == 2, "C20.listfield.one-token-per-element")
	vAssert(vStrTokIs(out, m, 0, 1, uint64(int64(x))), "C20.listfield.element-0")
	vAssert(vStrTokIs(out, m, 1, 1, uint64(int64(y))), "C20.listfield.element-1")

	// List(E) with one symbolic element
	el, err := capnp.NewUInt16List(seg, 2)
	vAssume(err == nil)
	ev := uint16(1)
	if vNondetBool() {
		ev = vNondetU16()
		vAssume(ev >= 2)
	}
	el.Set(0, ev)
	el.Set(1, 0)
	vAssume(s.SetPtr(1, el.ToPtr()) == nil)
	b.b = nil
	err = enc.marshalFieldValue(s, fields.At(2))
	vReach("enum-list-rendered")
	vAssert(err == nil, "C20.enumlist.renders-every-value")
	if err == nil && ev == 1 {
		vAssert(string(b.b) == "[b, a]", "C20.enumlist.names")
	}
	if err == nil && ev >= 2 {
		n := len(b.b)
		vAssert(n >= 6 && b.b[0] == '[' && b.b[n-1] == ']' && b.b[n-2] == 'a' && b.b[n-3] == ' ' && b.b[n-4] == ',', "C20.enumlist.number-then-name")
	}
}

// third schema: struct V { a @0 :UInt8; union { x @1 :UInt16; y @2 :Float64; } } - only the active
// union member is shown, whatever bits the inactive one holds; an unknown discriminant shows none
const vTypeV = 0xabcdef0123456703

func vSchema3() *schemas.Registry {
	msg, seg, err := capnp.NewMessage(capnp.SingleSegment(nil))
	vAssume(err == nil)
	req, err := schema.NewRootCodeGeneratorRequest(seg)
	vAssume(err == nil)
	nodes, err := req.NewNodes(1)
	vAssume(err == nil)
	n := nodes.At(0)
	n.SetId(vTypeV)
	vAssume(n.SetDisplayName("t.capnp:V") == nil)
	n.SetDisplayNamePrefixLength(8)
	n.SetStructNode()
	sn := n.StructNode()
	sn.SetDataWordCount(2)
	sn.SetPointerCount(0)
	sn.SetDiscriminantCount(2)
	sn.SetDiscriminantOffset(1) // bytes 2..3
	fl, err := sn.NewFields(3)
	vAssume(err == nil)
	vField(fl, 0, "a", 0).SetUint8() // byte 0
	tx := vField(fl, 1, "x", 2)      // bytes 4..5
	tx.SetUint16()
	fl.At(1).SetDiscriminantValue(0)
	ty := vField(fl, 2, "y", 1) // bytes 8..15
	ty.SetFloat64()
	fl.At(2).SetDiscriminantValue(1)
	for i := 0; i < 3; i++ {
		d, err := fl.At(i).Slot().NewDefaultValue()
		vAssume(err == nil)
		switch i {
		case 0:
			d.SetUint8(0)
		case 1:
			d.SetUint16(0)
		default:
			d.SetFloat64(0)
		}
	}
	data, err := msg.Marshal()
	vAssume(err == nil)
	reg := new(schemas.Registry)
	vAssume(reg.Register(&schemas.Schema{Bytes: data, Nodes: []uint64{vTypeV}}) == nil)
	return reg
}

func VH_C20_union_active_member_only() {
	reg := vSchema3()
	_, seg, err := capnp.NewMessage(capnp.SingleSegment(nil))
	vAssume(err == nil)
	s, err := capnp.NewStruct(seg, capnp.ObjectSize{DataSize: 16})
	vAssume(err == nil)
	a, x, y := vNondetU8(), vNondetU16(), vNondetU64()
	which := uint16(0)
	switch vNondetU8() % 3 {
	case 1:
		which = 1
	case 2:
		which = vNondetU16()
		vAssume(which >= 2)
	}
	s.SetUint8(0, a)
	s.SetUint16(2, which)
	s.SetUint16(4, x)
	s.SetUint64(8, y)
	b := &vBuf{}
	enc := NewEncoder(b)
	enc.UseRegistry(reg)
	err = enc.Encode(vTypeV, s)
	vReach("rendered")
	vAssert(err == nil, "C20.union.no-error")
	if err != nil {
		return
	}
	var want []byte
	want = append(want, "(a = "...)
	want = strconv.AppendUint(want, uint64(a), 10)
	switch {
	case which == 0:
		want = append(want, ", x = "...)
		want = strconv.AppendUint(want, uint64(x), 10)
	case which == 1:
		want = append(want, ", y = "...)
		want = strconv.AppendFloat(want, math.Float64frombits(y), 'g', -1, 64)
	}
	want = append(want, ')')
	vAssert(len(b.b) == len(want), "C20.union.only-the-active-member-is-shown")
	if len(b.b) == len(want) {
		for j := 0; j < 5; j++ {
			vAssert(b.b[j] == want[j], "C20.union.bytes-equal-reference")
		}
		n := len(want)
		vAssert(b.b[n-1] == ')', "C20.union.closed")
	}
}

// fourth schema (two variants that describe the SAME type id with different field names): struct W
// { <name> @0 :UInt64; s @1 :Int64; }. 64-bit scalars are rendered by the formatter of their own
// signedness from exactly the accessor value; after UseRegistry the encoder follows the NEW registry
// however much it rendered before.
const vTypeW = 0xabcdef0123456704

func vSchema4(first string) *schemas.Registry {
	msg, seg, err := capnp.NewMessage(capnp.SingleSegment(nil))
	vAssume(err == nil)
	req, err := schema.NewRootCodeGeneratorRequest(seg)
	vAssume(err == nil)
	nodes, err := req.NewNodes(1)
	vAssume(err == nil)
	n := nodes.At(0)
	n.SetId(vTypeW)
	vAssume(n.SetDisplayName("t.capnp:W") == nil)
	n.SetDisplayNamePrefixLength(8)
	n.SetStructNode()
	sn := n.StructNode()
	sn.SetDataWordCount(2)
	fl, err := sn.NewFields(2)
	vAssume(err == nil)
	vField(fl, 0, first, 0).SetUint64()
	vField(fl, 1, "s", 1).SetInt64()
	d0, err := fl.At(0).Slot().NewDefaultValue()
	vAssume(err == nil)
	d0.SetUint64(0)
	d1, err := fl.At(1).Slot().NewDefaultValue()
	vAssume(err == nil)
	d1.SetInt64(0)
	data, err := msg.Marshal()
	vAssume(err == nil)
	reg := new(schemas.Registry)
	vAssume(reg.Register(&schemas.Schema{Bytes: data, Nodes: []uint64{vTypeW}}) == nil)
	return reg
}

func vRefW(first string, u uint64, s int64) []byte {
	var want []byte
	want = append(want, '(')
	want = append(want, first...)
	want = append(want, " = "...)
	want = strconv.AppendUint(want, u, 10)
	want = append(want, ", s = "...)
	want = strconv.AppendInt(want, s, 10)
	return append(want, ')')
}

func VH_C20_int64_fields_and_registry_switch() {
	regA, regB := vSchema4("u"), vSchema4("v")
	_, seg, err := capnp.NewMessage(capnp.SingleSegment(nil))
	vAssume(err == nil)
	st, err := capnp.NewStruct(seg, capnp.ObjectSize{DataSize: 16})
	vAssume(err == nil)
	u, s := vNondetU64(), int64(vNondetU64())
	if vNondetBool() {
		// values on which the signed and the unsigned formatter differ (a mix-up replays natively)
		vAssume(u >= 1<<63 && s < 0)
	}
	st.SetUint64(0, u)
	st.SetUint64(8, uint64(s))
	b := &vBuf{}
	enc := NewEncoder(b)
	enc.UseRegistry(regA)
	prior := vConcI3(int(vNondetU8()))
	for i := 0; i < prior; i++ {
		vAssume(enc.Encode(vTypeW, st) == nil)
	}
	b.b = nil
	err = enc.Encode(vTypeW, st)
	vReach("rendered-a")
	vAssert(err == nil, "C20.w.no-error")
	want := vRefW("u", u, s)
	vAssert(len(b.b) == len(want), "C20.w.64-bit-fields-use-the-formatter-of-their-signedness")
	if len(b.b) == len(want) && len(want) >= 6 {
		vAssert(b.b[1] == 'u' && b.b[len(want)-1] == ')', "C20.w.shape")
	}
	// switch the registry: the same type id now names its first field differently
	enc.UseRegistry(regB)
	b.b = nil
	err = enc.Encode(vTypeW, st)
	vReach("rendered-b")
	vAssert(err == nil, "C20.switch.no-error")
	if err == nil && len(b.b) >= 2 {
		vAssert(b.b[1] == 'v', "C20.switch.output-follows-the-new-registry")
	}
}

func vConcI3(x int) int {
	for i := 0; i < 3; i++ {
		if x == i {
			return i
		}
	}
	vAssume(false)
	return 0
}

// List(T) fields for every primitive T: the text encoder hands the list to the list type of the
// SAME element type, so every element is formatted with its own width and signedness
const vTypeL = 0xabcdef0123456705

func VH_C20_list_field_element_types() {
	kind := vConcI12(int(vNondetU8()))
	msg, seg, err := capnp.NewMessage(capnp.SingleSegment(nil))
	vAssume(err == nil)
	req, err := schema.NewRootCodeGeneratorRequest(seg)
	vAssume(err == nil)
	nodes, err := req.NewNodes(1)
	vAssume(err == nil)
	n := nodes.At(0)
	n.SetId(vTypeL)
	vAssume(n.SetDisplayName("t.capnp:L") == nil)
	n.SetDisplayNamePrefixLength(8)
	n.SetStructNode()
	sn := n.StructNode()
	sn.SetPointerCount(1)
	fl, err := sn.NewFields(1)
	vAssume(err == nil)
	tl := vField(fl, 0, "l", 0)
	tl.SetList()
	et, err := tl.List().NewElementType()
	vAssume(err == nil)
	dv, err := fl.At(0).Slot().NewDefaultValue()
	vAssume(err == nil)
	vAssume(dv.SetList(capnp.Ptr{}) == nil)
	_, vseg, err := capnp.NewMessage(capnp.SingleSegment(nil))
	vAssume(err == nil)
	st, err := capnp.NewStruct(vseg, capnp.ObjectSize{PointerCount: 1})
	vAssume(err == nil)
	x := vNondetU64()
	var lp capnp.Ptr
	tokKind, want := 0, uint64(0)
	switch kind {
	case 0:
		et.SetInt8()
		l, e := capnp.NewInt8List(vseg, 2)
		vAssume(e == nil)
		l.Set(0, int8(x))
		lp, tokKind, want = l.ToPtr(), 1, uint64(int64(int8(x)))
	case 1:
		et.SetInt16()
		l, e := capnp.NewInt16List(vseg, 2)
		vAssume(e == nil)
		l.Set(0, int16(x))
		lp, tokKind, want = l.ToPtr(), 1, uint64(int64(int16(x)))
	case 2:
		et.SetInt32()
		l, e := capnp.NewInt32List(vseg, 2)
		vAssume(e == nil)
		l.Set(0, int32(x))
		lp, tokKind, want = l.ToPtr(), 1, uint64(int64(int32(x)))
	case 3:
		et.SetInt64()
		l, e := capnp.NewInt64List(vseg, 2)
		vAssume(e == nil)
		l.Set(0, int64(x))
		lp, tokKind, want = l.ToPtr(), 1, x
	case 4:
		et.SetUint8()
		l, e := capnp.NewUInt8List(vseg, 2)
		vAssume(e == nil)
		l.Set(0, uint8(x))
		lp, tokKind, want = l.ToPtr(), 2, uint64(uint8(x))
	case 5:
		et.SetUint16()
		l, e := capnp.NewUInt16List(vseg, 2)
		vAssume(e == nil)
		l.Set(0, uint16(x))
		lp, tokKind, want = l.ToPtr(), 2, uint64(uint16(x))
	case 6:
		et.SetUint32()
		l, e := capnp.NewUInt32List(vseg, 2)
		vAssume(e == nil)
		l.Set(0, uint32(x))
		lp, tokKind, want = l.ToPtr(), 2, uint64(uint32(x))
	case 7:
		et.SetUint64()
		l, e := capnp.NewUInt64List(vseg, 2)
		vAssume(e == nil)
		l.Set(0, x)
		lp, tokKind, want = l.ToPtr(), 2, x
	case 8:
		et.SetFloat32()
		l, e := capnp.NewFloat32List(vseg, 2)
		vAssume(e == nil)
		f := math.Float32frombits(uint32(x))
		l.Set(0, f)
		lp, tokKind, want = l.ToPtr(), 3, math.Float64bits(float64(f))
	case 9:
		et.SetFloat64()
		l, e := capnp.NewFloat64List(vseg, 2)
		vAssume(e == nil)
		l.Set(0, math.Float64frombits(x))
		lp, tokKind, want = l.ToPtr(), 6, x
	case 10:
		et.SetBool()
		l, e := capnp.NewBitList(vseg, 2)
		vAssume(e == nil)
		l.Set(0, x&1 == 1)
		lp = l.ToPtr()
	default:
		et.SetVoid()
		lp = capnp.NewVoidList(vseg, 2).ToPtr()
	}
	// values on which width and signedness show (a mix-up replays natively)
	if kind < 8 && vNondetBool() {
		vAssume(x&0x8080808080808080 == 0x8080808080808080)
	}
	data, err := msg.Marshal()
	vAssume(err == nil)
	reg := new(schemas.Registry)
	vAssume(reg.Register(&schemas.Schema{Bytes: data, Nodes: []uint64{vTypeL}}) == nil)
	vAssume(st.SetPtr(0, lp) == nil)
	rm, err := capnp.Unmarshal(data)
	vAssume(err == nil)
	rreq, err := schema.ReadRootCodeGeneratorRequest(rm)
	vAssume(err == nil)
	rn, err := rreq.Nodes()
	vAssume(err == nil)
	fields, err := rn.At(0).StructNode().Fields()
	vAssume(err == nil)
	b := &vBuf{}
	enc := NewEncoder(b)
	enc.UseRegistry(reg)
	m := vTokMark()
	err = enc.marshalFieldValue(st, fields.At(0))
	vReach("rendered")
	vAssert(err == nil, "C20.listtypes.no-error")
	out := string(b.b)
	switch {
	case kind == 10:
		if x&1 == 1 {
			vAssert(out == "[true, false]", "C20.listtypes.bool")
		} else {
			vAssert(out == "[false, false]", "C20.listtypes.bool")
		}
	case kind == 11:
		vAssert(out == "[void, void]", "C20.listtypes.void")
	default:
		vAssert(vStrTokCount(out, m) == 2, "C20.listtypes.one-token-per-element")
		vAssert(vStrTokIs(out, m, 0, tokKind, want), "C20.listtypes.element-formatted-with-its-own-type")
	}
}

func vConcI12(x int) int {
	for i := 0; i < 12; i++ {
		if x == i {
			return i
		}
	}
	vAssume(false)
	return 0
}

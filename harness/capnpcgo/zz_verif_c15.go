package main

// C15 H-genkernel: the generator's own arithmetic on schema nodes with symbolic contents, against
// the layout rules of schema.capnp: a field of width W bits at slot offset o lives at byte o*W/8;
// the XOR mask of an integer default is the default's two's-complement bits at that width; a
// struct's data section is 8*dataWordCount bytes; the discriminant lives at 2*discriminantOffset.

import (
	"capnproto.org/go/capnp/v3"
	"capnproto.org/go/capnp/v3/internal/schema"
)

func vSeg() *capnp.Segment {
	_, seg, err := capnp.NewMessage(capnp.SingleSegment(nil))
	vAssume(err == nil)
	return seg
}

func VH_C15_int_default_mask() {
	v, err := schema.NewRootValue(vSeg())
	vAssume(err == nil)
	x := vNondetU64()
	vReach("entry")
	switch vNondetU8() % 4 {
	case 0:
		v.SetInt8(int8(x))
		vAssert(intFieldDefaultMask(v) == uint64(uint8(x)), "C15.mask.int8-twos-complement-bits")
		vAssert(intValue(v) == int64(int8(x)), "C15.value.int8")
	case 1:
		v.SetInt16(int16(x))
		vAssert(intFieldDefaultMask(v) == uint64(uint16(x)), "C15.mask.int16-twos-complement-bits")
		vAssert(intValue(v) == int64(int16(x)), "C15.value.int16")
	case 2:
		v.SetInt32(int32(x))
		vAssert(intFieldDefaultMask(v) == uint64(uint32(x)), "C15.mask.int32-twos-complement-bits")
		vAssert(intValue(v) == int64(int32(x)), "C15.value.int32")
	default:
		v.SetInt64(int64(x))
		vAssert(intFieldDefaultMask(v) == x, "C15.mask.int64-twos-complement-bits")
		vAssert(intValue(v) == int64(x), "C15.value.int64")
	}
}

func VH_C15_uint_default() {
	v, err := schema.NewRootValue(vSeg())
	vAssume(err == nil)
	x := vNondetU64()
	vReach("entry")
	switch vNondetU8() % 4 {
	case 0:
		v.SetUint8(uint8(x))
		vAssert(uintValue(v) == uint64(uint8(x)), "C15.value.uint8")
	case 1:
		v.SetUint16(uint16(x))
		vAssert(uintValue(v) == uint64(uint16(x)), "C15.value.uint16")
	case 2:
		v.SetUint32(uint32(x))
		vAssert(uintValue(v) == uint64(uint32(x)), "C15.value.uint32")
	default:
		v.SetUint64(x)
		vAssert(uintValue(v) == x, "C15.value.uint64")
	}
}

// byte offset of a data field = slot offset * width in bytes
func VH_C15_field_offset() {
	f, err := schema.NewRootField(vSeg())
	vAssume(err == nil)
	f.SetSlot()
	o := vNondetU32()
	vAssume(o < 1<<16) // data sections have at most 65535 words
	f.Slot().SetOffset(o)
	vReach("entry")
	for _, bits := range []uint{8, 16, 32, 64} {
		p := structUintFieldParams{structFieldParams: structFieldParams{Field: field{Field: f}}, Bits: bits}
		vAssert(uint64(p.Offset()) == uint64(o)*uint64(bits/8), "C15.offset.slot-times-width")
		vAssert(uint64(structFloatFieldParams(p).Offset()) == uint64(o)*uint64(bits/8), "C15.offset.float")
	}
}

// New<T> allocates exactly the schema's struct size; the discriminant offset is in 16-bit units
func VH_C15_object_size() {
	n, err := schema.NewRootNode(vSeg())
	vAssume(err == nil)
	n.SetStructNode()
	dw, pc := vNondetU16(), vNondetU16()
	do := vNondetU32()
	vAssume(do < 1<<18)
	n.StructNode().SetDataWordCount(dw)
	n.StructNode().SetPointerCount(pc)
	n.StructNode().SetDiscriminantCount(2)
	n.StructNode().SetDiscriminantOffset(do)
	g := &generator{}
	g.imports.init()
	nd := &node{Node: n}
	str, err := g.ObjectSize(nd)
	vReach("returned")
	vAssert(err == nil, "C15.objectsize.ok")
	vAssert(vFmtInt(1, str) == 8*uint64(dw), "C15.objectsize.data-bytes-is-8-times-word-count")
	vAssert(vFmtInt(2, str) == uint64(pc), "C15.objectsize.pointer-count")
	off, err := nd.DiscriminantOffset()
	vAssert(err == nil && uint64(off) == 2*uint64(do), "C15.discriminant.byte-offset")
}

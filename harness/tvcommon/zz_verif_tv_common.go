package capnp

// Helpers of the generated translation-validation harnesses (c15tv). Only the public, generic
// accessors of capnp.Struct are used (they are pinned by C03/C04).

import (
	"math"

	capnp "capnproto.org/go/capnp/v3"
)

func vTVSeg() (*capnp.Message, *capnp.Segment) {
	msg, seg, err := capnp.NewMessage(capnp.SingleSegment(nil))
	vAssume(err == nil)
	return msg, seg
}

// vTVStruct: a struct of D data words and P pointers whose data is symbolic and whose pointers are
// null or not, nondeterministically
func vTVStruct(D, P int) capnp.Struct {
	_, seg := vTVSeg()
	s, err := capnp.NewStruct(seg, capnp.ObjectSize{DataSize: capnp.Size(8 * D), PointerCount: uint16(P)})
	vAssume(err == nil)
	for i := 0; i < D; i++ {
		s.SetUint64(capnp.DataOffset(8*i), vNondetU64())
	}
	for i := 0; i < P; i++ {
		if vNondetBool() {
			vAssume(s.SetPtr(uint16(i), capnp.NewInterface(seg, 0).ToPtr()) == nil)
		}
	}
	return s
}

func vTVLoad(s capnp.Struct, off, n int) uint64 {
	var v uint64
	for k := 0; k < n; k++ {
		v |= uint64(s.Uint8(capnp.DataOffset(off+k))) << (8 * uint(k))
	}
	return v
}

func vTVLoad16(s capnp.Struct, off int) uint16 { return uint16(vTVLoad(s, off, 2)) }
func vTVBit(s capnp.Struct, bit int) bool       { return s.Bit(capnp.BitOffset(bit)) }

// vTVPre builds the struct, activates the union member (if any) and picks an arbitrary other byte
func vTVPre(D, P, discOff, disc int) (capnp.Struct, int, byte) {
	s := vTVStruct(D, P)
	if disc >= 0 {
		s.SetUint16(capnp.DataOffset(discOff), uint16(disc))
	}
	j := 0
	var old byte
	if D > 0 {
		j = vNondetInt()
		vAssume(j >= 0 && j < 8*D)
		old = s.Uint8(capnp.DataOffset(j))
	}
	vReach("entry")
	return s, j, old
}

// vTVScramble makes an arbitrary OTHER union member the active one before a setter runs
func vTVScramble(s capnp.Struct, discOff, disc int) {
	if disc >= 0 {
		s.SetUint16(capnp.DataOffset(discOff), vNondetU16())
	}
}

// vTVPtrPost: the pointer setter / allocator made its member active and filled its slot
func vTVPtrPost(s capnp.Struct, slot, discOff, disc int) {
	if disc >= 0 {
		vAssert(int(vTVLoad16(s, discOff)) == disc, "C15.tv.pointer-setter-sets-the-discriminant")
	}
	vAssert(s.HasPtr(uint16(slot)), "C15.tv.pointer-setter-fills-the-slot")
}

// vTVSizePost: the allocator of a struct field / list field created an object of the schema's size
// (for lists: one element of the schema's element size)
func vTVSizePost(s capnp.Struct, slot int, isList bool, wantD, wantP int) {
	p, err := s.Ptr(uint16(slot))
	vAssert(err == nil, "C15.tv.allocated-object-readable")
	if err != nil {
		return
	}
	var sz capnp.ObjectSize
	if isList {
		l := p.List()
		vAssert(l.Len() == 1, "C15.tv.list-allocator-length")
		if l.Len() != 1 {
			return
		}
		sz = l.Struct(0).Size()
	} else {
		sz = p.Struct().Size()
	}
	vAssert(int(sz.DataSize) == wantD && int(sz.PointerCount) == wantP, "C15.tv.allocator-uses-the-schema-size")
}

// vTVPost: the setter set the discriminant and touched nothing outside the field and the discriminant
func vTVPost(s capnp.Struct, j int, old byte, off, n int, D, P, discOff, disc int) {
	if disc >= 0 {
		vAssert(int(vTVLoad16(s, discOff)) == disc, "C15.tv.setter-sets-the-discriminant")
	}
	if D == 0 {
		return
	}
	inField := j >= off && j < off+n
	inDisc := disc >= 0 && j >= discOff && j < discOff+2
	if !inField && !inDisc {
		vAssert(s.Uint8(capnp.DataOffset(j)) == old, "C15.tv.setter-touches-nothing-else")
	}
}

func vTVFloat32bits(f float32) uint32     { return math.Float32bits(f) }
func vTVFloat64bits(f float64) uint64     { return math.Float64bits(f) }
func vTVFloat32frombits(b uint32) float32 { return math.Float32frombits(b) }
func vTVFloat64frombits(b uint64) float64 { return math.Float64frombits(b) }

package strquote

// C20 H-quote: the quoted form of every byte string is a well-formed Cap'n Proto text literal from
// which the original bytes are recovered exactly. The reference parser is written from the text
// grammar: a literal is "..." ; inside, a backslash starts one of \a \b \f \n \r \t \v \' \" \\
// or \xHH; a raw double quote ends the literal; raw control bytes (< 0x20) and bytes >= 0x7f must not
// appear.

func refHex(c byte) (byte, bool) {
	switch {
	case c >= '0' && c <= '9':
		return c - '0', true
	case c >= 'a' && c <= 'f':
		return c - 'a' + 10, true
	case c >= 'A' && c <= 'F':
		return c - 'A' + 10, true
	}
	return 0, false
}

// refParse parses one literal occupying the whole of q.
func refParse(q []byte) (out []byte, ok bool) {
	if len(q) < 2 || q[0] != '"' {
		return nil, false
	}
	i := 1
	for {
		if i >= len(q) {
			return nil, false // unterminated
		}
		c := q[i]
		i++
		switch {
		case c == '"':
			return out, i == len(q) // the closing quote must be the last byte
		case c == '\\':
			if i >= len(q) {
				return nil, false
			}
			e := q[i]
			i++
			switch e {
			case 'a':
				out = append(out, 7)
			case 'b':
				out = append(out, 8)
			case 'f':
				out = append(out, 12)
			case 'n':
				out = append(out, 10)
			case 'r':
				out = append(out, 13)
			case 't':
				out = append(out, 9)
			case 'v':
				out = append(out, 11)
			case '\'':
				out = append(out, '\'')
			case '"':
				out = append(out, '"')
			case '\\':
				out = append(out, '\\')
			case 'x':
				if i+1 >= len(q) {
					return nil, false
				}
				h, ok1 := refHex(q[i])
				l, ok2 := refHex(q[i+1])
				if !ok1 || !ok2 {
					return nil, false
				}
				out = append(out, h<<4|l)
				i += 2
			default:
				return nil, false
			}
		case c < 0x20 || c >= 0x7f:
			return nil, false // must have been escaped
		default:
			out = append(out, c)
		}
	}
}

func vQuote(n int) {
	s := vNondetBytes(n)
	vReach("entry")
	for i := 0; i < n; i++ {
		vRegion("has_quote_or_backslash", true)
	}
	q := Append(nil, s)
	out, ok := refParse(q)
	vAssert(ok, "C20.quote.well-formed-literal")
	if ok {
		vAssert(len(out) == n, "C20.quote.recovers-length")
		if len(out) == n && n > 0 {
			j := vNondetInt()
			vAssume(j >= 0 && j < n)
			vAssert(out[j] == s[j], "C20.quote.recovers-bytes")
		}
	}
}

func VH_C20_quote_0() { vQuote(0) }
func VH_C20_quote_1() { vQuote(1) }
func VH_C20_quote_2() { vQuote(2) }
func VH_C20_quote_3() { vQuote(3) }
func VH_C20_quote_4() { vQuote(4) }

// with a non-empty destination prefix the prefix is preserved
func VH_C20_quote_prefix() {
	pre := vNondetBytes(2)
	s := vNondetBytes(1)
	q := Append(pre, s)
	vReach("entry")
	vAssert(len(q) >= 2 && q[0] == pre[0] && q[1] == pre[1], "C20.quote.prefix-preserved")
	_, ok := refParse(q[2:])
	vAssert(ok, "C20.quote.prefix.well-formed-literal")
}

package server

// C12, concurrent slices. The engine runs goroutines cooperatively: a goroutine started by a go
// statement runs when the others wait (vSettle() lets all of them run until each has finished or
// waits), so the harness scripts WHEN an implementation acknowledges, returns or is cancelled.
// One schedule per script is explored - the one the script forces - with all data symbolic.

import (
	"context"

	"capnproto.org/go/capnp/v3"
)

type vCallRec struct {
	ret vRet
	rel int
}

func vArgs() capnp.Struct {
	_, seg, err := capnp.NewMessage(capnp.SingleSegment(nil))
	vAssume(err == nil)
	args, err := capnp.NewStruct(seg, capnp.ObjectSize{DataSize: 8})
	vAssume(err == nil)
	return args
}

// Shutdown cancels every running call whatever slot it occupies (calls that returned earlier leave
// free slots below and between running ones), waits for them, runs the user's shutdown exactly
// once; every call completes exactly once.
func VH_C12_shutdown_cancels_running() {
	shut := &vShut{}
	entered, left := 0, 0
	var rel [3]chan struct{}
	for k := range rel {
		rel[k] = make(chan struct{})
	}
	idx := 0
	blocking := func(ctx context.Context, call *Call) error {
		k := idx
		idx++
		entered++
		call.Ack()
		// runs until cancelled or until the script lets it return
		select {
		case <-ctx.Done():
			left++
			return ctx.Err()
		case <-rel[k]:
			left++
			return nil
		}
	}
	m := capnp.Method{InterfaceID: 7, MethodID: 2}
	srv := New([]Method{{Method: m, Impl: blocking}}, nil, shut, &Policy{MaxConcurrentCalls: 3})
	var recs [3]vCallRec
	for k := 0; k < 3; k++ {
		kk := k
		srv.Recv(context.Background(), capnp.Recv{Method: m, Args: vArgs(), ReleaseArgs: func() { recs[kk].rel++ }, Returner: &recs[kk].ret})
		vAssert(vLocksHeld() == 0, "C12.conc.start.no-lock-held")
	}
	vSettle()
	vReach("started")
	vAssert(entered == 3 && left == 0, "C12.conc.every-call-started-and-running")
	// any subset of the calls returns before Shutdown
	var released [3]bool
	nr := 0
	for k := 0; k < 3; k++ {
		released[k] = vNondetBool()
		if released[k] {
			close(rel[k])
			nr++
		}
	}
	vSettle()
	vAssert(left == nr, "C12.conc.released-calls-returned")
	for k := 0; k < 3; k++ {
		if released[k] {
			vAssert(recs[k].ret.returns == 1 && recs[k].ret.err == nil, "C12.conc.released-call-completed")
		} else {
			vAssert(recs[k].ret.returns == 0, "C12.conc.running-call-not-completed-early")
		}
	}
	vNoBlock(true) // nobody but Shutdown can end the running calls
	srv.Shutdown()
	vReach("shutdown")
	vAssert(left == 3, "C12.conc.shutdown-waits-for-running-calls")
	vAssert(shut.n == 1, "C12.conc.user-shutdown-exactly-once")
	for k := 0; k < 3; k++ {
		vAssert(recs[k].ret.returns == 1, "C12.conc.each-call-completes-exactly-once")
		vAssert(recs[k].rel == 1, "C12.conc.arguments-released-once")
		if !released[k] {
			vAssert(recs[k].ret.err != nil, "C12.conc.cancelled-call-fails")
		}
	}
	vAssert(vLocksHeld() == 0, "C12.conc.shutdown.no-lock-held")
}

// The acknowledgement gate with three concurrent callers: B and C wait for A's acknowledgement; when
// it comes exactly one of them starts and the other waits for that one's acknowledgement. (Which of
// two callers blocked in different goroutines goes first is not determined by the library - both
// wake on the same channel - and is not asserted.)
func VH_C12_ack_gate() {
	unacked, maxUnacked := 0, 0
	var order []int
	goA, goB := make(chan struct{}), make(chan struct{})
	impl := func(k int, gate chan struct{}) func(ctx context.Context, call *Call) error {
		return func(ctx context.Context, call *Call) error {
			order = append(order, k)
			unacked++
			if unacked > maxUnacked {
				maxUnacked = unacked
			}
			if gate != nil {
				<-gate // hold the acknowledgement until the script says so
			}
			unacked--
			call.Ack()
			return nil
		}
	}
	ma := capnp.Method{InterfaceID: 7, MethodID: 1}
	mb := capnp.Method{InterfaceID: 7, MethodID: 2}
	mc := capnp.Method{InterfaceID: 7, MethodID: 3}
	srv := New([]Method{{Method: ma, Impl: impl(0, goA)}, {Method: mb, Impl: impl(1, goB)}, {Method: mc, Impl: impl(2, goB)}}, nil, nil, &Policy{MaxConcurrentCalls: 3})
	var recs [3]vCallRec
	call := func(k int, m capnp.Method) {
		srv.Recv(context.Background(), capnp.Recv{Method: m, Args: vArgs(), ReleaseArgs: func() { recs[k].rel++ }, Returner: &recs[k].ret})
	}
	go call(0, ma)
	vSettle() // A is delivered and holds its acknowledgement
	go call(1, mb)
	vSettle()
	go call(2, mc)
	vSettle()
	vReach("three-callers")
	vAssert(len(order) == 1 && order[0] == 0, "C12.gate.later-calls-wait-for-acknowledgement")
	close(goA)
	vSettle()
	vReach("a-acked")
	vAssert(len(order) == 2 && order[0] == 0, "C12.gate.exactly-one-more-call-after-ack")
	vAssert(maxUnacked <= 1, "C12.gate.one-unacknowledged-call-at-a-time")
	close(goB)
	vSettle()
	vReach("b-acked")
	vAssert(len(order) == 3 && order[1] != order[2], "C12.gate.every-call-delivered-once")
	vAssert(maxUnacked <= 1, "C12.gate.one-unacknowledged-call-at-a-time")
	for k := 0; k < 3; k++ {
		vAssert(recs[k].ret.returns == 1 && recs[k].rel == 1, "C12.gate.each-call-completes-exactly-once")
	}
	vAssert(vLocksHeld() == 0, "C12.gate.no-lock-held")
}

// The concurrency cap: with MaxConcurrentCalls running (acknowledged, not returned) a further call
// does not start until one returns, and starts then.
func VH_C12_concurrency_cap() {
	maxc := 1 + vConcS(int(vNondetU8()), 2) // 1 or 2
	running, maxRunning, entered := 0, 0, 0
	release := make(chan struct{})
	impl := func(ctx context.Context, call *Call) error {
		entered++
		running++
		if running > maxRunning {
			maxRunning = running
		}
		call.Ack()
		<-release
		running--
		return nil
	}
	m := capnp.Method{InterfaceID: 7, MethodID: 1}
	srv := New([]Method{{Method: m, Impl: impl}}, nil, nil, &Policy{MaxConcurrentCalls: maxc})
	var recs [3]vCallRec
	call := func(k int) {
		srv.Recv(context.Background(), capnp.Recv{Method: m, Args: vArgs(), ReleaseArgs: func() { recs[k].rel++ }, Returner: &recs[k].ret})
	}
	for k := 0; k < maxc; k++ {
		call(k) // returns once acknowledged
	}
	vAssert(entered == maxc, "C12.cap.calls-below-the-cap-start")
	go call(maxc) // one more than the cap
	vSettle()
	vReach("over-cap")
	vAssert(entered == maxc, "C12.cap.call-over-the-cap-does-not-start")
	vAssert(maxRunning <= maxc, "C12.cap.at-most-max-concurrent-calls")
	close(release)
	vSettle()
	vReach("released")
	vAssert(entered == maxc+1, "C12.cap.waiting-call-starts-when-one-returns")
	vAssert(maxRunning <= maxc, "C12.cap.at-most-max-concurrent-calls")
	for k := 0; k <= maxc; k++ {
		vAssert(recs[k].ret.returns == 1 && recs[k].rel == 1, "C12.cap.each-call-completes-exactly-once")
	}
	vAssert(vLocksHeld() == 0, "C12.cap.no-lock-held")
}

// vHook is a capability implemented by the harness: it records the calls it observes; a call stays
// inside Recv (delivery not acknowledged) until gate is closed, if there is a gate.
type vHook struct {
	seen []uint16
	gate chan struct{}
}

func (h *vHook) Send(ctx context.Context, s capnp.Send) (*capnp.Answer, capnp.ReleaseFunc) {
	return capnp.ErrorAnswer(s.Method, vFault{}), func() {}
}

func (h *vHook) Recv(ctx context.Context, r capnp.Recv) capnp.PipelineCaller {
	h.seen = append(h.seen, r.Method.MethodID)
	if h.gate != nil {
		<-h.gate
	}
	r.ReleaseArgs()
	r.Returner.Return(nil)
	return nil
}

func (h *vHook) Brand() capnp.Brand { return capnp.Brand{} }
func (h *vHook) Shutdown()          {}

// Calls pipelined on a not-yet-returned answer are delivered in the order made once it returns,
// also when the delivery of an earlier one to ANOTHER capability of the result is slow: Q1 -> X,
// Q2 -> Y queued before the return; X holds Q1's delivery; Q3 -> Y made in that window must not
// overtake Q2.
func VH_C12_pipelined_order() {
	x := &vHook{gate: make(chan struct{})}
	y := &vHook{}
	cx, cy := capnp.NewClient(x), capnp.NewClient(y)
	relBase := make(chan struct{})
	// Y sits in pointer field fy of the result: a small index or one that needs both bytes of the
	// 16-bit field number
	fy := [3]uint16{1, 256, 0x0101}[vConcS(int(vNondetU8()), 3)]
	base := func(ctx context.Context, call *Call) error {
		res, err := call.AllocResults(capnp.ObjectSize{PointerCount: 258})
		vAssume(err == nil)
		msg := res.Message()
		vAssume(res.SetPtr(0, capnp.NewInterface(res.Segment(), msg.AddCap(cx)).ToPtr()) == nil)
		vAssume(res.SetPtr(fy, capnp.NewInterface(res.Segment(), msg.AddCap(cy)).ToPtr()) == nil)
		call.Ack()
		<-relBase
		return nil
	}
	m := capnp.Method{InterfaceID: 7, MethodID: 1}
	srv := New([]Method{{Method: m, Impl: base}}, nil, nil, nil)
	var recs [4]vCallRec
	pc := srv.Recv(context.Background(), capnp.Recv{Method: m, Args: vArgs(), ReleaseArgs: func() { recs[0].rel++ }, Returner: &recs[0].ret})
	vAssert(pc != nil, "C12.pipe.acknowledged-call-yields-a-pipeline")
	if pc == nil {
		return
	}
	q := func(k int, field uint16) {
		pc.PipelineRecv(context.Background(), []capnp.PipelineOp{{Field: field}}, capnp.Recv{
			Method: capnp.Method{InterfaceID: 9, MethodID: uint16(k)}, Args: vArgs(),
			ReleaseArgs: func() { recs[k].rel++ }, Returner: &recs[k].ret})
	}
	q(1, 0) // Q1 -> X
	q(2, fy) // Q2 -> Y
	vAssert(len(x.seen) == 0 && len(y.seen) == 0, "C12.pipe.queued-until-the-answer-returns")
	close(relBase)
	vSettle() // the base call returns; the drain delivers Q1 to X, which holds it
	vReach("draining")
	vAssert(len(x.seen) == 1 && x.seen[0] == 1, "C12.pipe.first-queued-call-delivered")
	go q(3, fy) // Q3 -> Y while the drain is stuck in X
	vSettle()
	vAssert(len(y.seen) == 0 || y.seen[0] == 2, "C12.pipe.later-call-does-not-overtake-queued-one")
	close(x.gate)
	vSettle()
	vReach("drained")
	vAssert(len(y.seen) == 2 && y.seen[0] == 2 && y.seen[1] == 3, "C12.pipe.delivered-in-the-order-made")
	for k := 0; k < 4; k++ {
		vAssert(recs[k].ret.returns == 1 && recs[k].ret.err == nil, "C12.pipe.each-call-completes-exactly-once")
		vAssert(recs[k].rel == 1, "C12.pipe.arguments-released-once")
	}
	vAssert(vLocksHeld() == 0, "C12.pipe.no-lock-held")
}

// The Send path (local callers): the arguments placed by the caller reach the implementation, the
// results the implementation writes reach the caller's Answer, an error from the implementation or
// from PlaceArgs is the Answer's error and the implementation is not run in the latter case; a call
// that acknowledges before it returns gives an Answer that resolves when it returns; each call
// completes exactly once.
func VH_C12_send_path() {
	arg, res := vNondetU64(), vNondetU64()
	acks := vConcS(int(vNondetU8()), 2) == 1
	fails := vConcS(int(vNondetU8()), 2) == 1
	placeFails := vConcS(int(vNondetU8()), 2) == 1
	gate := make(chan struct{})
	ran := 0
	var seen uint64
	impl := func(ctx context.Context, call *Call) error {
		ran++
		seen = call.Args().Uint64(0)
		if acks {
			call.Ack()
			<-gate
		}
		if fails {
			return vFault{}
		}
		r, err := call.AllocResults(capnp.ObjectSize{DataSize: 8})
		vAssume(err == nil)
		r.SetUint64(0, res)
		return nil
	}
	m := capnp.Method{InterfaceID: 7, MethodID: 1}
	srv := New([]Method{{Method: m, Impl: impl}}, nil, nil, nil)
	ans, rel := srv.Send(context.Background(), capnp.Send{
		Method:   m,
		ArgsSize: capnp.ObjectSize{DataSize: 8},
		PlaceArgs: func(s capnp.Struct) error {
			if placeFails {
				return vFault{}
			}
			s.SetUint64(0, arg)
			return nil
		},
	})
	vReach("sent")
	vAssert(vLocksHeld() == 0, "C12.send.no-lock-held")
	if placeFails {
		_, err := ans.Struct()
		vAssert(err != nil && ran == 0, "C12.send.place-args-error-is-the-answer-and-nothing-runs")
		rel()
		return
	}
	vAssert(ran == 1 && seen == arg, "C12.send.arguments-reach-the-implementation")
	if acks {
		vAssert(!vIsDoneCh(ans.Done()), "C12.send.acknowledged-call-still-running")
		close(gate)
		vSettle()
	}
	vAssert(vIsDoneCh(ans.Done()), "C12.send.answer-resolves-when-the-call-returns")
	s, err := ans.Struct()
	if fails {
		vAssert(err != nil, "C12.send.implementation-error-is-the-answer")
	} else {
		vAssert(err == nil && s.Uint64(0) == res, "C12.send.results-reach-the-caller")
	}
	vAssert(ran == 1, "C12.send.completes-exactly-once")
	rel()
	vAssert(vLocksHeld() == 0, "C12.send.release.no-lock-held")
}

func vIsDoneCh(ch <-chan struct{}) bool {
	select {
	case <-ch:
		return true
	default:
		return false
	}
}

package server

// C12 (sequential slice): calls made one after the other on a locally implemented capability, in the
// schedule where each implementation goroutine runs while Server.start waits for it (acknowledging
// delivery or not, succeeding or failing): the implementation observes the calls in the order made,
// every call completes exactly once (one Return, arguments released once), nothing stays locked,
// Shutdown runs the user's shutdown exactly once, no call starts afterwards, a second Shutdown panics
// as documented. Timing-dependent clauses (concurrency cap under blocked implementations, ordering
// of pipelined calls on unreturned answers, Shutdown waiting for running calls) are outside.

import (
	"context"

	"capnproto.org/go/capnp/v3"
)

type vFault struct{}

func (vFault) Error() string { return "vFault" }

type vRet struct {
	returns int
	err     error
}

func (r *vRet) AllocResults(sz capnp.ObjectSize) (capnp.Struct, error) {
	_, seg, err := capnp.NewMessage(capnp.SingleSegment(nil))
	if err != nil {
		return capnp.Struct{}, err
	}
	return capnp.NewStruct(seg, sz)
}

func (r *vRet) Return(e error) {
	r.returns++
	r.err = e
}

type vShut struct{ n int }

func (s *vShut) Shutdown() { s.n++ }

func VH_C12_sequential_calls() {
	var order []int
	next := 0
	shut := &vShut{}
	var fails [3]bool
	running := 0
	impl := func(ctx context.Context, call *Call) error {
		k := next
		next++
		running++
		vAssert(running == 1, "C12.seq.one-implementation-at-a-time")
		order = append(order, k)
		if vNondetBool() {
			call.Ack() // acknowledge delivery before returning, or not
		}
		running--
		fails[k] = vNondetBool()
		if fails[k] {
			return vFault{}
		}
		return nil
	}
	m := capnp.Method{InterfaceID: 7, MethodID: 1}
	maxc := 1 + vConcS(int(vNondetU8()), 2)
	srv := New([]Method{{Method: m, Impl: impl}}, nil, shut, &Policy{MaxConcurrentCalls: maxc})
	n := 1 + vConcS(int(vNondetU8()), 3)
	var rets [3]vRet
	var rel [3]int
	for k := 0; k < n; k++ {
		kk := k
		_, seg, err := capnp.NewMessage(capnp.SingleSegment(nil))
		vAssume(err == nil)
		args, err := capnp.NewStruct(seg, capnp.ObjectSize{DataSize: 8})
		vAssume(err == nil)
		srv.Recv(context.Background(), capnp.Recv{Method: m, Args: args, ReleaseArgs: func() { rel[kk]++ }, Returner: &rets[kk]})
		vAssert(vLocksHeld() == 0, "C12.seq.no-lock-held")
	}
	vReach("called")
	vAssert(len(order) == n, "C12.seq.every-call-delivered-once")
	for k := 0; k < n; k++ {
		vAssert(order[k] == k, "C12.seq.delivered-in-the-order-made")
		vAssert(rets[k].returns == 1, "C12.seq.each-call-completes-exactly-once")
		vAssert((rets[k].err != nil) == fails[k], "C12.seq.result-is-the-implementation's")
		vAssert(rel[k] == 1, "C12.seq.arguments-released-once")
	}
	// an unknown method is rejected without reaching the implementation
	var ur vRet
	urel := 0
	srv.Recv(context.Background(), capnp.Recv{Method: capnp.Method{InterfaceID: 7, MethodID: 99}, ReleaseArgs: func() { urel++ }, Returner: &ur})
	vAssert(ur.returns == 1 && ur.err != nil && len(order) == n, "C12.seq.unknown-method-rejected")
	srv.Shutdown()
	vReach("shutdown")
	vAssert(shut.n == 1, "C12.shutdown.user-shutdown-exactly-once")
	vAssert(vLocksHeld() == 0, "C12.shutdown.no-lock-held")
	var late vRet
	lrel := 0
	_, seg, err := capnp.NewMessage(capnp.SingleSegment(nil))
	vAssume(err == nil)
	args, err := capnp.NewStruct(seg, capnp.ObjectSize{DataSize: 8})
	vAssume(err == nil)
	srv.Recv(context.Background(), capnp.Recv{Method: m, Args: args, ReleaseArgs: func() { lrel++ }, Returner: &late})
	vAssert(len(order) == n, "C12.shutdown.no-call-starts-afterwards")
	vAssert(late.returns == 1 && late.err != nil, "C12.shutdown.late-call-fails-once")
	again := vPanics(func() { srv.Shutdown() })
	vAssert(again && shut.n == 1, "C12.shutdown.second-shutdown-panics-and-does-not-rerun")
	vAssert(vLocksHeld() == 0, "C12.shutdown.second.no-lock-held")
}

func vConcS(x, n int) int {
	for i := 0; i < n; i++ {
		if x == i {
			return i
		}
	}
	vAssume(false)
	return 0
}

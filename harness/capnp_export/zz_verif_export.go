package capnp

import "sync/atomic"

// VBudgetLeft reports what the message's traversal budget has left (after it has been initialised
// the way the first read initialises it). For harnesses of other packages; overlaid, never in /repo.
func VBudgetLeft(m *Message) uint64 {
	m.rlimitInit.Do(m.initReadLimit)
	return atomic.LoadUint64(&m.rlimit)
}

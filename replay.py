#!/usr/bin/env python3
"""Replay one recorded counterexample natively: ./replay.py replays/<file>.json"""
import sys, json, os, tempfile, shutil
sys.path.insert(0, os.path.dirname(os.path.abspath(__file__)))
import importlib.util
spec = importlib.util.spec_from_file_location("check", os.path.join(os.path.dirname(os.path.abspath(__file__)), "check.py"))
chk = importlib.util.module_from_spec(spec); spec.loader.exec_module(chk)
path = os.path.abspath(sys.argv[1])
cex = json.load(open(path))
prop = os.path.basename(path).split('-')[0]
sp = json.load(open(os.path.join(chk.VERIF, "checks", prop + ".json")))
work = tempfile.mkdtemp(prefix="verif-replay-")
try:
    for g in sp["groups"]:
        names, _ = chk.list_harnesses(g) if os.path.exists(chk.GOSYM) else (None, "")
        if names is None or cex["harness"] in names:
            res = chk.replay(g, [(path, cex)], work)
            print(res.get(path))
            sys.exit(1 if str(res.get(path, "")).startswith("reproduced") else 0)
    print("harness not found")
finally:
    shutil.rmtree(work, ignore_errors=True)
